"""C03 — filters mean exactly the documented conjunction, evaluated on the metric name"""
from . import tablegen as tg, rxgen, gen
from .c01 import classify, nontrivial
from . import common

LEVEL_TEXT = ("Lean theorems soundPrefix_sound (all regex ASTs x all names), prefixOK_of_le, match_eq_conj6, agg_filter_complete, "
              "cache_transparent (all histories of lookups and expiries). Regenerated obligations: every Match call site of the dispatch "
              "path passes the name; the aggregator calls PreMatch and MatchRegexAndExpand. Correspondence: real matcher.Matcher (Match, "
              "PreMatch, derived prefixes read by reflection) vs the model on generated option sets and almost-matching names; table level "
              "with destination/aggregation filters that could hit value or timestamp text; model-free monitor: a name matched by Go's regexp "
              "always starts with the derived prefix, and Match equals the six-condition conjunction computed with Go's regexp directly.")


def matcher_cases(rnd, n):
    cases = []
    cur = []
    for i in range(n):
        m = tg.matcher(rnd, density=0.4, allow_space=True)
        if rnd.random() < 0.7 and not m[4]:
            m[4] = tg.regex(rnd)
        names = rxgen.names_for(rnd, m[4] + " " + m[5], 5) + [gen.name(rnd) for _ in range(2)]
        if rnd.random() < 0.3:
            names.append(names[0] + " 1 15")   # a whole line: only the table must cut it, the matcher sees what it is given
        for nm in names:
            cur.append("m %s %s" % (" ".join(tg.hx(x) for x in m), tg.hx(nm)))
        if len(cur) >= 200:
            cases.append(("m%d" % len(cases), cur))
            cur = []
    if cur:
        cases.append(("m%d" % len(cases), cur))
    return cases


def update_cases(rnd, n):
    """a filter changed at run time (modRoute / modDest give only the options that change): afterwards the route's and the
    destination's filter must decide like a matcher built afresh from the resulting six options"""
    cases, cur = [], []
    for i in range(n):
        m = tg.matcher(rnd, density=0.4, allow_space=False)
        if rnd.random() < 0.7 and not m[4]:
            m[4] = tg.regex(rnd)
        if rnd.random() < 0.3 and not m[5]:
            m[5] = tg.regex(rnd)
        m2 = tg.matcher(rnd, density=0.4, allow_space=False)
        if rnd.random() < 0.6:
            m2[4] = tg.regex(rnd)
        if rnd.random() < 0.3:
            m2[5] = tg.regex(rnd)
        upd = []
        for k in range(6):
            r = rnd.random()
            # '=' keeps the option, the new value may also be empty (the option is cleared)
            upd.append("=" if r < 0.5 else tg.hx(m2[k]))
        if all(u == "=" for u in upd):
            upd[rnd.choice([4, 5])] = tg.hx(tg.regex(rnd))
        final = [m[k] if upd[k] == "=" else m2[k] for k in range(6)]
        names = rxgen.names_for(rnd, m[4] + " " + m[5], 3) + rxgen.names_for(rnd, final[4] + " " + final[5], 4) + [gen.name(rnd) for _ in range(2)]
        for nm in names:
            cur.append("u %s %s %s" % (" ".join(tg.hx(x) for x in m), " ".join(upd), tg.hx(nm)))
        if len(cur) >= 200:
            cases.append(("u%d" % len(cases), cur))
            cur = []
    if cur:
        cases.append(("u%d" % len(cases), cur))
    return cases


def update_monitor(lines, out):
    for l, o in zip(lines, out):
        f = o.split()
        if f[0] != "u":
            continue
        if not (f[1] == f[2] == f[3]):
            g = l.split()
            dec = lambda h: b"" if h == "-" else bytes.fromhex(h)
            return ("after updating the filter %r with %r, Match(%r) is route=%s destination=%s, but a filter built afresh from the resulting options says %s"
                    % ([dec(x) for x in g[1:7]], [x if x == "=" else dec(x) for x in g[7:13]], dec(g[13]), f[1], f[2], f[3]))
    return None


def make_match_monitor(ctx):
    """model-free: conj6 with Go's regexp queried directly (harness `rx`), and prefix soundness"""
    from . import common

    def monitor(lines, out):
        # collect regex queries
        qs = []
        for l in lines:
            f = l.split()
            for rx in (f[5], f[6]):
                if rx != "-":
                    qs.append("m %s %s" % (rx, f[7]))
        rc, so, se = common.run_side(common.HARNESS, ["rx"], "\n".join(qs) + "\n", 120)
        ans = so.split("\n")
        k = 0
        for l, o in zip(lines, out):
            f = l.split()
            dec = lambda h: b"" if h == "-" else bytes.fromhex(h)
            pre, npre, sub, nsub, name = dec(f[1]), dec(f[2]), dec(f[3]), dec(f[4]), dec(f[7])
            re_ok, nre_hit = True, False
            if f[5] != "-":
                re_ok = ans[k] == "1"
                k += 1
            if f[6] != "-":
                nre_hit = ans[k] == "1"
                k += 1
            want = ((not pre or name.startswith(pre)) and (not npre or not name.startswith(npre)) and (not sub or sub in name)
                    and (not nsub or nsub not in name) and re_ok and not nre_hit)
            if o == "err":
                continue
            of = o.split()
            got = of[0] == "1"
            if got != want:
                return "Match(%r) = %s but the six-condition conjunction (Go regexp) is %s for options %r" % (
                    name, got, want, [dec(x) for x in f[1:7]])
            if want and of[1] != "1":
                return "PreMatch(%r) is false although the complete filter accepts, options %r" % (name, [dec(x) for x in f[1:7]])
            p1, p2 = dec(of[2]), dec(of[3])
            if f[5] != "-" and re_ok and not name.startswith(p1):
                return "regex %r matches %r but the derived prefix is %r" % (dec(f[5]), name, p1)
            if f[6] != "-" and nre_hit and not name.startswith(p2):
                return "notRegex %r matches %r but the derived prefix is %r" % (dec(f[6]), name, p2)
        return None
    return monitor


def canon_match(lines):
    # compare the Match decisions; PreMatch and the derived prefixes need not be equal: the real prefix may be shorter
    # than the model's sound one, which only makes the real PreMatch weaker (it must stay necessary: see the monitor)
    return [l.split()[0] for l in lines]


def prefix_monitor(lines, real, model):
    """real derived prefix must be a prefix of the model's sound prefix (then prefixOK_of_le applies)"""
    for l, r, m in zip(lines, real, model):
        if r == "err" or m is None:
            continue
        rf, mf = r.split(), m.split()
        for i in (2, 3):
            rp = "" if rf[i] == "-" else rf[i]
            mp = "" if mf[i] == "-" else mf[i]
            if not mp.startswith(rp):
                return "derived prefix %r is not a prefix of the sound prefix %r (%s)" % (bytes.fromhex(rp), bytes.fromhex(mp), l)
    return None


def parse_tree(s, i=0):
    """parse the harness's tree dump into nested tuples; returns (tree, next index)"""
    c = s[i]
    if c in "enwbz":
        return (c,), i + 1
    if c == "l":
        j = i + 1
        while j < len(s) and s[j].isdigit():
            j += 1
        return ("l", int(s[i + 1:j])), j
    assert s[i + 1] == "("
    i += 2
    args = []
    while s[i] != ")":
        if s[i] == ",":
            i += 1
            continue
        t, i = parse_tree(s, i)
        args.append(t)
    return (c, args), i + 1


def gen_from(rnd, t):
    """a byte string in the language of the (over-approximating) tree, biased to stay inside the real language"""
    k = t[0]
    if k in "ebz":
        return b""
    if k == "n":
        return b"?"
    if k == "w":
        return bytes([rnd.choice(b"abcxyz019._-")])
    if k == "l":
        return bytes([t[1]])
    args = t[1]
    if k in "gc":
        return b"".join(gen_from(rnd, a) for a in args)
    if k == "a":
        return gen_from(rnd, rnd.choice(args))
    if k == "q":
        return gen_from(rnd, args[0]) if rnd.random() < 0.4 else b""
    if k == "s":
        return b"".join(gen_from(rnd, args[0]) for _ in range(rnd.choice([0, 0, 1, 2])))
    if k == "p":
        return b"".join(gen_from(rnd, args[0]) for _ in range(rnd.choice([1, 1, 2])))
    return b""


def prefix_stream(ctx):
    """regexToPrefix (real, read from the matcher) against soundPrefix on the tree Go's parser produced, on names generated
    from that tree; three separate verdicts: property monitor (witness), real prefix <+: sound prefix (premise of
    prefixOK_of_le), real regexp match => over-approximating relation has a match (validity of the AST abstraction)"""
    from . import common
    rnd = ctx.rng("prefix")
    regs = []
    for _ in range(ctx.scale(1500, 10000)):
        regs.append(tg.regex(rnd) if rnd.random() < 0.3 else rxgen.regex(rnd))
    regs += DOC_REGEXES
    rc, so, se = common.run_side(common.HARNESS, ["rxast"], "".join(tg.hx(r) + "\n" for r in regs), 300)
    asts = so.split("\n")
    q1, q2, meta = [], [], []
    for r, a in zip(regs, asts):
        if a == "err" or not a:
            continue
        pfx, tree = a.split()
        t, _ = parse_tree(tree)
        names = set()
        for _ in range(6):
            n = gen_from(rnd, t)
            names.add(n + rnd.choice([b"", b"", b".x", b"1"]))
            if n:
                k = rnd.randrange(len(n))
                names.add(n[:k] + n[k + 1:])
        for n in rxgen.names_for(rnd, r, 2):
            names.add(n.encode())
        names = sorted(names)
        for n in names:
            q1.append("m %s %s" % (tg.hx(r), tg.hx(n)))
        q2.append("a %s %s" % (tree, " ".join(tg.hx(n) for n in names)))
        meta.append((r, b"" if pfx == "-" else bytes.fromhex(pfx), tree, names))
    rc, so, se = common.run_side(common.HARNESS, ["rx"], "\n".join(q1) + "\n", 1800)
    gobits = so.split("\n")
    # the over-approximating matcher on the dumped tree is a backtracking search: a few (regex, name) pairs take it very long.
    # Run it in chunks; a chunk that does not finish is halved until the slow entries are isolated, and those are skipped
    # (counted below; more than 1% skipped fails the obligation)
    absout, skipped, rc2, se2 = [], 0, 0, ""

    def run_chunk(qs, budget):
        nonlocal skipped, rc2, se2
        r, so_, se_ = common.run_side(common.DRIVER, ["absprefix"], "\n".join(qs) + "\n", budget)
        lines_ = so_.split("\n")
        if r == 0 and len(lines_) >= len(qs):
            return lines_[:len(qs)]
        if len(qs) == 1:
            skipped += 1
            if r != -9:
                rc2, se2 = r, se_
            return ["SKIP"]
        h = len(qs) // 2
        return run_chunk(qs[:h], budget) + run_chunk(qs[h:], budget)
    for i in range(0, len(q2), 400):
        absout += run_chunk(q2[i:i + 400], 120)
    ctx.hist("regex-prefix", "abstraction entries skipped (time limit)", skipped)
    ctx.oblige("regex-prefix: harness (Go regexp) and driver (abstraction on the dumped trees) ran to completion", "tie-B",
               rc == 0 and rc2 == 0 and len(absout) >= len(meta) and len(gobits) >= len(q1) and skipped * 100 <= max(100, len(meta)),
               "harness rc=%d driver rc=%d skipped=%d: %s" % (rc, rc2, skipped, (se + se2)[-300:]))
    k = 0
    nwit = nle = nsub = nmatch = 0
    for (r, pfx, tree, names), ao in zip(meta, absout):
        sp, bits = (ao.split() + ["", ""])[:2]
        skip = sp == "SKIP"
        sound = b"" if sp in ("-", "", "SKIP") else bytes.fromhex(sp)
        # the evaluated case of this stream is a (regex, name) pair: each one is run through Go's regexp and the
        # abstraction, and distinct_nontrivial counts the matching pairs, so evaluations counts pairs as well
        ctx.evaluations += max(1, len(names))
        if not skip and not sound.startswith(pfx):
            nle += 1
            if nle <= 2:
                ctx.problem("correspondence", "regex-prefix", ["regex %r" % r], "derived prefix %r is not a prefix of soundPrefix(tree)=%r, tree %s" % (pfx, sound, tree), False)
        for j, n in enumerate(names):
            gm = gobits[k] == "1"
            k += 1
            if gm:
                nmatch += 1
                ctx.nontrivial.add(("regex-prefix", r, n))
                if not n.startswith(pfx):
                    nwit += 1
                    if nwit <= 3:
                        ctx.problem("property-monitor", "regex-prefix", ["regex %r" % r, "name %r" % n],
                                    "regex %r matches %r (Go regexp) but the matcher derived the static prefix %r, so Match rejects the name" % (r, n, pfx), True)
                if not skip and j < len(bits) and bits[j] != "1":
                    nsub += 1
                    if nsub <= 2:
                        ctx.problem("correspondence", "regex-abstraction", ["regex %r" % r, "name %r" % n],
                                    "Go regexp matches but the over-approximating relation M on the dumped tree %s does not (abstraction unsound)" % tree, False)
    ctx.hist("regex-prefix", "regexes", len(meta))
    ctx.hist("regex-prefix", "matching (regex,name) pairs", nmatch)
    ctx.hist("regex-prefix", "non-empty derived prefixes", sum(1 for m in meta if m[1]))
    ctx.oblige("property monitor regex-prefix: every name Go's regexp matches starts with the derived prefix (%d regexes, %d matching pairs)" % (len(meta), nmatch), "monitor", nwit == 0)
    ctx.oblige("derived prefix <+: soundPrefix(tree) for every sampled regex (premise of prefixOK_of_le)", "tie-B", nle == 0)
    ctx.oblige("real regexp match => M-match on the dumped tree (premise hsem of prefixOK_of_le, sampled)", "tie-B", nsub == 0)
    common.log("  stream %-28s cases=%-6d matching=%d witness=%d notle=%d notsub=%d" % ("regex-prefix", len(meta), nmatch, nwit, nle, nsub))


DOC_REGEXES = ["^stats\\.timers\\..*", "^carbon\\.", "^(foo|bar)\\.", "^servers\\.([^.]+)\\.cpu", "^collectd\\.[^.]+\\.cpu-[0-9]+\\.", "[^.]+\\.count$",
               "^stats\\.timers\\.(app|proxy)\\.", "^(?i)abc", "^ab?c", "^foo|bar", "^a\\.*b", "^abc{0}d", "^ab*", "^(servers\\.[^.]+)\\.cpu\\.", "^(abc.*)def", "^((ab)c?)d"]


def cache_cases(rnd, n):
    """table-level: aggregators with cache on, repeated names (cache hits), dropRaw so that the decision is observable at once"""
    out = []
    for i in range(n):
        t = ["lvl none none 0"]
        for _ in range(rnd.randint(1, 3)):
            a = tg.aggregator(rnd, dropraw_p=0.7)
            a[6] = 1
            t.append(tg.agg_line(a))
        t.append("route cap - - - - - -")
        t.append("build")
        names = [gen.name(rnd) for _ in range(6)]
        ls = []
        for _ in range(40):
            nm = rnd.choice(names)
            ts = 1500000000 + rnd.randint(0, 50)
            ls.append("in %s %d %d" % (tg.hx("%s 1 %d" % (nm, ts)), gen.fbits("1"), ts))
        out.append(("c%d" % i, t + ls))
    # names whose FNV-1a 64 digests are equal: a cache keyed by anything but the name itself confuses them
    for j, (a, b) in enumerate((("8yn0iYCKYHlIj4-BwPqk", "GReLUrM4wMqfg9yzV3KQ"), ("gMPflVXtwGDXbIhP73TX", "LtHf1prlU1bCeYZEdqWf"))):
        for first, second in ((a, b), (b, a)):
            t = ["lvl none none 0",
                 tg.agg_line(["sum", "(%s.*)" % first[1:8], "agg.$1", 10, 0, 1, 1, "", "", "", "", ""]),   # no static prefix: the cache decides
                 "route cap - - - - - -", "build"]
            ls = []
            for k, nm in enumerate((first, second, first, second)):     # no flush in between (a flush also expires the cache); one bucket per point
                ts = 1500000010 + 10 * k
                ls.append("inx %s %d %d" % (tg.hx("%s 1 %d" % (nm, ts)), gen.fbits("1"), ts))
            ls.append("pump")
            out.append(("col%d%s" % (j, first[:2]), t + ls))
    return out


def run(ctx):
    ctx.assumptions += ["the string->AST step is Go's regexp/syntax parser (external): soundPrefix_sound is about ASTs; per sampled source the derived prefix is checked against the model's AST",
                        "regex semantics on the model side: Crng/Rx.lean, validated against Go regexp (stream rx)"]
    ctx.prepare()
    ctx.lean(["Crng.Props.C03"], ["Crng.Props.C03.soundPrefix_sound", "Crng.Props.C03.prefixOK_of_le", "Crng.Props.C03.match_eq_conj6",
                                  "Crng.Props.C03.agg_filter_complete", "Crng.Props.C03.cache_transparent"],
             ties=["Crng.Tie.C03", common.CODE_MATCHER, common.CODE_AGG])
    # the Lean regex engine itself
    rnd = ctx.rng("rx")
    lines = []
    for _ in range(ctx.scale(800, 20000)):
        r = rxgen.regex(rnd)
        for n in rxgen.names_for(rnd, r, 3):
            k = rnd.random()
            if k < 0.6:
                lines.append("m %s %s" % (tg.hx(r), tg.hx(n)))
            elif k < 0.8:
                lines.append("x %s %s %s" % (tg.hx(r), tg.hx(rnd.choice(["$1", "${1}.x", "a$2b", "$0", "$$", "$1x", "lit"])), tg.hx(n)))
            else:
                lines.append("r %s %s %s" % (tg.hx(r), tg.hx(rnd.choice(["$1", "${1}.x", "", "Z", "<$0>"])), tg.hx(n)))
    ctx.stream("rx-engine", "rx", [("rx%d" % i, lines[i:i + 300]) for i in range(0, len(lines), 300)], shrink=False)
    mc = matcher_cases(ctx.rng("match"), ctx.scale(700, 15000))
    ctx.stream("matcher", "match", mc, canon=canon_match, monitor=make_match_monitor(ctx), spec_exact=True, shrink=False,
                             classify=lambda l, o: "match=%d/%d" % (sum(1 for x in o if x.startswith("1")), len(o)))
    ctx.stream("filter-updates", "match", update_cases(ctx.rng("upd"), ctx.scale(150, 3000)), model=False, monitor=update_monitor, shrink=False,
               classify=lambda l, o: "match=%d/%d" % (sum(1 for x in o if x.startswith("u 1")), len(o)))
    # the same pipeline while the running table is changed through its admin API between bursts of repeated traffic: real table
    # vs the model rebuilt from the resulting configuration (anything remembered from before a change shows as a difference)
    ctx.stream("table-history", "table", tg.history_cases(ctx.rng("c03h"), ctx.scale(50, 1000), density=0.5), classify=classify, nontrivial=nontrivial,
               spec_exact=True, timeout=ctx.scale(600, 3000), removable=tg.HISTORY_REMOVABLE)
    prefix_stream(ctx)
    # table level: filters whose sub/regex options could hit the value or timestamp text
    rndt = ctx.rng("c03t")
    cs = []
    for i in range(ctx.scale(120, 2500)):
        t = tg.table(rndt, nbl=(0, 2), nrw=(0, 1), nagg=(0, 2), nroutes=(1, 4), dest_space=True, density=0.5)
        ls = []
        for _ in range(20):
            line, bits, ts = tg.metric_line(rndt, invalid_p=0.03, ts=rndt.choice([1500000015, 1500000001, 200015]))
            ls.append("in %s %d %d" % (tg.hx(line), bits, ts))
        for _ in range(4):
            ls.append("aggin %s" % tg.hx("%s 1.000000 %d" % (gen.name(rndt), 1500000015)))
        cs.append(("t%d" % i, t + ls))
    ctx.stream("table-filters", "table", cs, classify=classify, nontrivial=nontrivial, spec_exact=True,
               removable=lambda l: l.startswith(("in ", "inm ", "aggin ")))
    ctx.stream("agg-cache", "table", cache_cases(ctx.rng("cache"), ctx.scale(40, 600)), classify=classify, nontrivial=nontrivial,
               spec_exact=True, removable=lambda l: l.startswith(("in ", "inm ", "aggin ")))
