"""generator of routing-table descriptions and metric lines for the table pipeline stream
(shared by C01, C02, C03, C04, C11, C19; each property biases it differently)"""
import struct
from . import gen, rxgen


def hx(s):
    if isinstance(s, str):
        s = s.encode()
    return s.hex() if s else "-"


PREFIXES = ["a", "ab", "abc", "foo", "foo.", "bar", "x.", "cpu", "web", "prod.", "stats.", ".", "_t"]
SUBS = ["a", "b", ".", "oo", "web", "count", "1", "_t", "x.y", "ar.", " 1", " 15"]
SIMPLE_RX = ["^foo", "^foo\\.", "bar$", "^a", "^ab?c", "^(foo|bar)", "cpu|load", "\\.count$", "[0-9]$", "^stats\\..*\\.count$",
             "^(web[0-9])\\.", "^[a-z]+\\.[a-z]+$", "x\\.y", "^prod\\.", "1$", "^\\.", "^a\\.*b", "^ab*", "^abc{0}d", "o{2}"]


def regex(rnd):
    return rnd.choice(SIMPLE_RX) if rnd.random() < 0.7 else rxgen.regex(rnd)


def matcher(rnd, density=0.35, allow_space=False):
    def pick(pool):
        v = rnd.choice(pool)
        if " " in v and not allow_space:
            return "1"
        return v
    pre = pick(PREFIXES) if rnd.random() < density else ""
    npre = pick(PREFIXES) if rnd.random() < density * 0.6 else ""
    sub = pick(SUBS) if rnd.random() < density else ""
    nsub = pick(SUBS) if rnd.random() < density * 0.6 else ""
    re_ = regex(rnd) if rnd.random() < density else ""
    nre = regex(rnd) if rnd.random() < density * 0.6 else ""
    return [pre, npre, sub, nsub, re_, nre]


def mline(tag, m):
    return tag + " " + " ".join(hx(x) for x in m)


def rewriter(rnd):
    r = rnd.random()
    if r < 0.6:
        old = rnd.choice(["a", "o", "oo", ".", "foo", "ab", "web", "prod", "__", "..", "1"])
        new = rnd.choice(["", "x", "oo", "_", "bar.", "prep", "._", "_."])
        mx = rnd.choice([-1, -1, 0, 1, 2, 3])
        not_ = rnd.choice(["", "", "", "bar", "x", "/^foo/", "/[0-9]$/"])
        return [old, new, not_, mx]
    old = "/" + rnd.choice(["o+", "^foo", "\\.", "(a)(b)?", "([a-z]+)\\.([a-z]+)", "web([0-9])", "[0-9]", "b$", "a|b"]) + "/"
    new = rnd.choice(["", "X", "$1", "${1}_", "$2.$1", "<$0>", "$1x", "$$"])
    not_ = rnd.choice(["", "", "", "bar", "/^x/"])
    return [old, new, not_, -1]


AGG_FNS = ["sum", "count", "avg", "max", "min", "last", "delta", "stdev", "derive"]


def aggregator(rnd, dropraw_p=0.4):
    re_ = rnd.choice(["^(foo|bar)\\.(.*)", "^([a-z]+)\\.", "(.*)", "^stats\\.(.*)", "^(a.*)", "web([0-9])", "^(.*)\\.count$", "^agg\\.(.*)"])
    fmt = rnd.choice(["agg.$1", "$1.sum", "agg.${1}_x", "foo.$1", "stats.agg.$1", "$1", "a$2"])
    m = matcher(rnd, 0.25)
    nre = m[5]
    return [rnd.choice(AGG_FNS), re_, fmt, rnd.choice([1, 10, 60]), rnd.choice([0, 5, 60]), 1 if rnd.random() < dropraw_p else 0,
            1 if rnd.random() < 0.5 else 0, m[0], m[1], m[2], m[3], nre]


def agg_line(a):
    return "agg %s %s %s %d %d %d %d %s %s %s %s %s" % (a[0], hx(a[1]), hx(a[2]), a[3], a[4], a[5], a[6], hx(a[7]), hx(a[8]), hx(a[9]), hx(a[10]), hx(a[11]))


def table(rnd, nbl=(0, 3), nrw=(0, 2), nagg=(0, 2), nroutes=(1, 5), levels=None, order=False, dest_space=False, dropraw_p=0.4, density=0.35):
    legacy, m20 = levels or (rnd.choice(["none", "medium", "strict"]), rnd.choice(["none", "medium"]))
    out = ["lvl %s %s %d" % (legacy, m20, 1 if order else 0)]
    for _ in range(rnd.randint(*nbl)):
        out.append(mline("bl", matcher(rnd, density)))
    for _ in range(rnd.randint(*nrw)):
        r = rewriter(rnd)
        out.append("rw %s %s %s %d" % (hx(r[0]), hx(r[1]), hx(r[2]), r[3]))
    for _ in range(rnd.randint(*nagg)):
        out.append(agg_line(aggregator(rnd, dropraw_p)))
    for _ in range(rnd.randint(*nroutes)):
        kind = rnd.choice(["cap", "cap", "all", "first"])
        out.append("route %s %s" % (kind, " ".join(hx(x) for x in matcher(rnd, density * 0.8))))
        if kind != "cap":
            for _ in range(rnd.randint(0, 4)):
                out.append(mline("dest", matcher(rnd, density, allow_space=dest_space)))
    out.append("build")
    return out


VALS = ["1", "0", "42", "1.5", "-3.25", "1e3", "0x1p-2", "+5", "1_0", "0.000001", "123456789.125", "15", "1e309", "nan", "inf", ".5", "5."]
BADVALS = ["abc", "1..2", "", "0x", "1e", "--1"]


def fbits(tok):
    """float64 bits of a value token the way strconv.ParseFloat reads it (underscores are only legal where Go accepts them;
    where it does not, the line is invalid and the bits are never used)"""
    try:
        t = tok.replace("_", "")
        if t.lower().lstrip("+-").startswith("0x"):
            v = float.fromhex(t)
        else:
            v = float(t)
        if v != v:
            return 0x7FF8000000000001   # Go's math.NaN()
        return struct.unpack(">Q", struct.pack(">d", v))[0]
    except (ValueError, OverflowError):
        return 0


def metric_name(rnd, unique=None):
    n = gen.name(rnd)
    r = rnd.random()
    if r < 0.08:
        n = "." + n
    elif r < 0.13:
        n = n + ";tag=v"
    elif r < 0.16:
        n = n + ".unit=B.mtype=gauge.host=h1" if rnd.random() < 0.5 else "host=web1.disk=sda"
    return n


def metric_line(rnd, invalid_p=0.12, ts=None, ws_p=0.15):
    """returns (line bytes, bits of the value token, ts as uint32 or 0)"""
    n = metric_name(rnd)
    v = rnd.choice(VALS[:12]) if rnd.random() < 0.9 else rnd.choice(VALS)
    if ts is None:
        ts = rnd.choice([200000, 1500000000, 1500000015, 2147483648, 4294967295, rnd.randint(200000, 2000000000)])
    tstok = str(ts)
    r = rnd.random()
    if r < invalid_p:
        k = rnd.random()
        if k < 0.25:
            parts = [n, v]                       # two fields
        elif k < 0.4:
            parts = [n, v, tstok, "x"]           # four fields
        elif k < 0.55:
            parts = [n, rnd.choice(BADVALS) or "x", tstok]
        elif k < 0.65:
            parts = [n, v, rnd.choice(["abc", "12a", "1..2"])]
        elif k < 0.8:
            parts = [n.replace(".", "..", 1) if "." in n else n + "..x", v, tstok]
        elif k < 0.9:
            parts = [n + rnd.choice(["%", "\x00", "\xc3\xa9", "(", "é"]), v, tstok]
        else:
            parts = [n + ";badtag", v, tstok]
    else:
        parts = [n, v, tstok]
    if rnd.random() < ws_p:
        seps = [rnd.choice([" ", "  ", "\t", " \t "]) for _ in parts]
        line = (rnd.choice(["", " ", "\t"]) + "".join(p + s for p, s in zip(parts, seps))).encode("utf-8", "surrogateescape")
        line = line.rstrip() if rnd.random() < 0.7 else line
    else:
        line = " ".join(parts).encode("utf-8", "surrogateescape")
    tsu = ts & 0xFFFFFFFF
    return line, fbits(v), tsu


def history_case(rnd, nphases=(2, 4), nlines=(6, 14), **kw):
    """a table, traffic, and changes applied to the *running* table between bursts of traffic (addRewriter / delRewriter /
    addBlack / delBlack by index incl. one beyond the end, modRoute, modDest); later bursts repeat earlier names so that
    anything remembered per name from before a change would show"""
    t = table(rnd, **kw)
    nbl = sum(1 for l in t if l.startswith("bl "))
    nrw = sum(1 for l in t if l.startswith("rw "))
    routes = []   # (kind, ndests)
    for l in t:
        if l.startswith("route "):
            routes.append([l.split()[1], 0])
        elif l.startswith("dest "):
            routes[-1][1] += 1
    out = list(t)
    seen = []
    for ph in range(rnd.randint(*nphases)):
        for _ in range(rnd.randint(*nlines)):
            if seen and rnd.random() < 0.55:
                out.append(rnd.choice(seen))
            else:
                line, bits, ts = metric_line(rnd, invalid_p=0.05, ts=rnd.choice([1500000015, 1500000001, 200015]))
                seen.append("in %s %d %d" % (hx(line), bits, ts))
                out.append(seen[-1])
        out.append("pump")
        for _ in range(rnd.randint(1, 2)):
            k = rnd.random()
            real = [i for i, r in enumerate(routes) if r[0] != "cap"]
            if k < 0.2:
                r = rewriter(rnd)
                out.append("addrw %s %s %s %d" % (hx(r[0]), hx(r[1]), hx(r[2]), r[3]))
                nrw += 1
            elif k < 0.4:
                i = rnd.randint(0, nrw + 1) if rnd.random() < 0.25 else rnd.randint(0, max(nrw - 1, 0))
                out.append("delrw %d" % i)
                if i < nrw:
                    nrw -= 1
            elif k < 0.5:
                out.append(mline("addbl", matcher(rnd, 0.3)))
                nbl += 1
            elif k < 0.6:
                i = rnd.randint(0, nbl + 1) if rnd.random() < 0.25 else rnd.randint(0, max(nbl - 1, 0))
                out.append("delbl %d" % i)
                if i < nbl:
                    nbl -= 1
            elif k < 0.85 and real:
                out.append("modroute %d %s" % (rnd.choice(real), " ".join(hx(x) for x in matcher(rnd, 0.3))))
            elif real:
                ri = rnd.choice(real)
                di = rnd.randint(0, routes[ri][1] + 1) if rnd.random() < 0.2 else rnd.randint(0, max(routes[ri][1] - 1, 0))
                out.append("moddest %d %d %s" % (ri, di, " ".join(hx(x) for x in matcher(rnd, 0.3))))
    for _ in range(rnd.randint(*nlines)):
        if seen and rnd.random() < 0.7:
            out.append(rnd.choice(seen))
        else:
            line, bits, ts = metric_line(rnd, invalid_p=0.05, ts=1500000015)
            out.append("in %s %d %d" % (hx(line), bits, ts))
    out += ["pump", "bad"]
    return out


def history_cases(rnd, n, **kw):
    return [("h%d" % i, history_case(rnd, **kw)) for i in range(n)]


HISTORY_REMOVABLE = lambda l: l.startswith(("in ", "inm ", "aggin ", "addrw", "delrw", "addbl", "delbl", "modroute", "moddest"))
