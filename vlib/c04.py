"""C04 — forwarded line = rewritten name + untouched value/timestamp; buffers isolated"""
from . import tablegen as tg, gen
from .c01 import classify, nontrivial
from . import common

LEVEL_TEXT = ("Lean theorems Crng.Props.C04.final_shape, literal_first / literal_absent / literal_max_zero / not_clause_skips over the model of "
              "Table.Dispatch and rewriter.RW.Do (bytes.Replace semantics). Regenerated obligations: Dispatch uses its parameter only for len() and "
              "copy(); data flow copy -> Fields -> rewriters -> AddMaybe / Join -> route.Dispatch; RW.Do skeleton. Correspondence: whitespace layouts x "
              "numeric spellings x rewriter lists (literal with every max, /regex/ with ${n}, not-clauses) byte-identical on capture routes; the "
              "caller's buffer is overwritten right after Dispatch returns, also while points are queued in parked aggregators, and every "
              "captured slice and aggregate output is re-read afterwards.")


def cases(rnd, n):
    out = []
    for i in range(n):
        t = ["lvl %s none 0" % rnd.choice(["none", "medium"])]
        for _ in range(rnd.randint(1, 4)):
            r = tg.rewriter(rnd)
            t.append("rw %s %s %s %d" % (tg.hx(r[0]), tg.hx(r[1]), tg.hx(r[2]), r[3]))
        naggs = rnd.randint(0, 2)
        for _ in range(naggs):
            a = tg.aggregator(rnd, dropraw_p=0.2)
            a[0] = rnd.choice(["sum", "count", "max", "last"])
            t.append(tg.agg_line(a))
        t.append("route cap - - - - - -")
        if rnd.random() < 0.5:
            t.append("route cap %s" % " ".join(tg.hx(x) for x in tg.matcher(rnd, 0.3)))
        t.append("build")
        ls = []
        for _ in range(12):
            line, bits, ts = tg.metric_line(rnd, invalid_p=0.02, ws_p=0.6)
            ls.append("%s %s %d %d" % (rnd.choice(["in", "inm"]), tg.hx(line), bits, ts))
        if naggs:
            # park the aggregators, queue distinct points behind the parked one, overwrite their buffers, then release
            ls.append("park")
            for k in range(rnd.randint(2, 6)):
                nm = "%s.u%d_%d" % (gen.name(rnd), i, k)
                v = rnd.choice(["1", "2.5", "42"])
                ts = 1500000000 + 100 * k
                ls.append("inmx %s %d %d" % (tg.hx("%s %s %d" % (nm, v, ts)), tg.fbits(v), ts))
            ls.append("unpark")
            ls.append("pump")
        out.append(("w%d" % i, t + ls))
    return out


def monitor(lines, out):
    """model-free: a delivered line has exactly three single-space separated fields, its value and timestamp tokens are the received
    ones byte-for-byte, and nothing handed over was altered afterwards"""
    ins = [l for l in lines if l.split()[0] in ("in", "inm", "inx", "inmx")]
    k = -1
    cur = None
    for o in out:
        if "MUTATED-AFTER-HANDOFF" in o:
            return "a slice handed to a route changed after the caller's buffer was overwritten: " + o
        if o.startswith("res "):
            k += 1
            cur = bytes.fromhex(ins[k].split()[1]) if k < len(ins) else None
        elif o.startswith("d ") and "[" in o and cur is not None:
            final = bytes.fromhex(o[o.index("[") + 1:o.index("]")])
            f = final.split(b" ")
            toks = cur.split()
            if len(f) != 3 or b"" in f[1:]:
                return "delivered line %r does not consist of three single-space separated fields" % final
            if len(toks) == 3 and (f[1] != toks[1] or f[2] != toks[2]):
                return "delivered %r: value/timestamp differ from the received tokens %r %r" % (final, toks[1], toks[2])
        elif o.startswith("a ") and b"#" in bytes.fromhex(o.split()[2]):
            return "aggregation output %r was computed from the caller's overwritten buffer" % bytes.fromhex(o.split()[2])
    return None


def run(ctx):
    ctx.assumptions += ["bytes already written to a socket are outside the property", "regex rewriters: Go regexp vs Crng/Rx.lean (validated in C03)"]
    ctx.prepare()
    ctx.lean(["Crng.Props.C04"], ["Crng.Props.C04.final_shape", "Crng.Props.C04.literal_first", "Crng.Props.C04.literal_absent",
                                  "Crng.Props.C04.literal_max_zero", "Crng.Props.C04.not_clause_skips", "Crng.Props.C04.same_copy"],
             ties=["Crng.Tie.C04", common.CODE_TABLE, common.CODE_REWRITER])
    # literal rewriter on its own (bytes.Replace semantics, all max values)
    rnd = ctx.rng("rw")
    lines = []
    for _ in range(ctx.scale(6000, 100000)):
        old = rnd.choice(["a", "ab", "aa", ".", "..", "__", "foo", "o", "prod", "aba"])
        new = rnd.choice(["", "a", "aa", "_.", "._", "prep", "x", "ab"])
        not_ = rnd.choice(["", "", "z", "foo", "a."])
        mx = rnd.choice([-1, -1, 0, 1, 2, 3, 10])
        s = "".join(rnd.choice(["a", "b", ".", "_", "o", "foo", "prod", "aba", "aa"]) for _ in range(rnd.randint(0, 8)))
        if rnd.random() < 0.25:
            # the replaced text must not be rescanned: new ends with the beginning of old, and the name continues with the rest of old
            old = rnd.choice(["__", "..", "ab", "aba", "prod", "x.y"])
            k = rnd.randint(1, len(old) - 1)
            new = "".join(rnd.choice("._abz") for _ in range(len(old) - k)) + old[:k]
            if rnd.random() < 0.3:
                new = new + rnd.choice(["", "q"])
            s = rnd.choice(["", "app", "a."]) + old + old[k:] + rnd.choice(["", "requests", old[k:], "." + old])
            mx = rnd.choice([-1, 2, 3])
            not_ = ""
        lines.append("%s %s %s %d %s" % (tg.hx(old), tg.hx(new), tg.hx(not_), mx, tg.hx(s)))
    ctx.stream("literal-rewriter", "rw", [("rw%d" % i, lines[i:i + 500]) for i in range(0, len(lines), 500)], spec_exact=True, shrink=False)
    # the same pipeline while the running table is changed through its admin API between bursts of repeated traffic: real table
    # vs the model rebuilt from the resulting configuration (anything remembered from before a change shows as a difference)
    ctx.stream("table-history", "table", tg.history_cases(ctx.rng("c04h"), ctx.scale(60, 1200), nrw=(1, 3), nagg=(0, 1)), classify=classify, nontrivial=nontrivial,
               spec_exact=True, timeout=ctx.scale(600, 3000), removable=tg.HISTORY_REMOVABLE)
    ctx.stream("table-format", "table", cases(ctx.rng("c04"), ctx.scale(120, 2500)), classify=classify, nontrivial=nontrivial, spec_exact=True,
               monitor=monitor, removable=lambda l: l.startswith(("in ", "inm ", "aggin ")))
