"""C14 — nothing received from the network or the admin port can crash the relay"""
import re
import struct
import time

from . import common
from . import tablegen as tg
from . import c20 as g20

DOC_CMDS = [
    "addRoute sendAllMatch carbon-default  {SINK0} spool=true pickle=false",
    "addRoute grafanaNet grafanaNet  http://127.0.0.1:9/metrics your-grafana.net-api-key {SCHEMAS} {AGGFILE}",
    "addBlack prefix collectd.localhost",
    "addBlack regex ^foo\\..*\\.cpu+",
    "addAgg sum regex=^stats\\.timers\\.(app|proxy|static)[0-9]+\\.requests\\.(.*) stats.timers._sum_$1.requests.$2 10 20 cache=true",
    "addAgg avg regex=^stats\\.timers\\.(app|proxy|static)[0-9]+\\.requests\\.(.*) sub=requests stats.timers._avg_$1.requests.$2 5 10 dropRaw=false",
    "addRoute sendAllMatch carbon-tagger sub==  {SINK0}",
    "addRoute sendFirstMatch analytics regex=(Err/s|wait_time|logger)  {SINK0} prefix=prod. spool=true pickle=true  {SINK1} prefix=staging. spool=true pickle=true",
    "addRoute consistentHashing ch  {SINK0}  {SINK1}:b  {SINK2}:c",
    "addRewriter foo bar 1",
    "addRewriter /^/ prefix. -1",
    "addRewriter /server\\.([^.]+)/ servers.${1}.collectd -1",
    "modDest carbon-default 0 prefix=foo",
    "modDest carbon-default 0 addr=127.0.0.1:2010 regex=a.*",
    "modRoute carbon-default prefix=foo sub=bar",
    "modRoute analytics regex=x",
    "delRoute carbon-default",
    "delRoute analytics",
    "addDest carbon-default 127.0.0.1:2007",
    "addAgg count regex=(.*) agg.$1 1 0",
    "addAgg stdev regex=^a\\.(.*) prefix=a. s.$1 1 1 cache=false dropRaw=true",
    "addAgg derive regex=^(.*)$ d.$1 1 0",
    "addAgg delta regex=^(.*)$ notRegex=^d\\. dl.$1 1 1",
    "view", "help", "", "add", "del", "mod",
]
NUMS = ["0", "-1", "00", "1", "9999999999", "99999999999999999999", "2147483648", "4294967296", "1e3", "0x10", "", "1.5", "-0", "+1", "9223372036854775807", "9223372036854775808"]
JUNK = ["", " ", "  ", "\t", "=", "==", "regex=", "regex=(", "regex=[a", "regex=*", "regex=(?P<n>a)(?P<n>b)", "regex=\\", "prefix=", "sub=", "flush=", "flush=0", "flush=-5", "reconn=0",
        "connbuf=0", "iobuf=0", "iobuf=-1", "spoolbuf=0", "spoolmaxbytesperfile=0", "spoolsyncevery=0", "spoolsyncperiod=0", "spoolsleep=0", "unspoolsleep=0", "pickle=maybe", "spool=1",
        "pickle=", "cache=", "dropRaw=", "##", "\"", "\"a b\"", "$1", "${", "${99}", "$0", "\x00", "\xff\xfe", "é", "a" * 3000, "true", "false", "true ", "avg ", "sum", "addr=", "addr=:", "addr=x:y:z:w",
        "bufSize=0", "flushMaxNum=0", "flushMaxWait=0", "timeout=0", "concurrency=0", "orgId=0", "errBackoffMin=0", "errBackoffFactor=0", "errBackoffFactor=x", "blocking=", "sslverify=no"]


def mutate_cmd(rnd, c):
    k = rnd.random()
    toks = c.split(" ")
    if k < 0.15:
        # numbers -> edge values
        idx = [i for i, t in enumerate(toks) if re.fullmatch(r"-?\d+", t)]
        if idx:
            toks[rnd.choice(idx)] = rnd.choice(NUMS)
        return " ".join(toks)
    if k < 0.3:
        # option values -> edge values
        idx = [i for i, t in enumerate(toks) if "=" in t]
        if idx:
            i = rnd.choice(idx)
            key = toks[i].split("=")[0]
            toks[i] = key + "=" + rnd.choice(NUMS + ["", "(", "true", "false", "x"])
        return " ".join(toks)
    if k < 0.42 and len(toks) > 1:
        del toks[rnd.randrange(len(toks))]
        return " ".join(toks)
    if k < 0.52:
        toks.insert(rnd.randrange(len(toks) + 1), rnd.choice(JUNK))
        return " ".join(toks)
    if k < 0.6 and len(toks) > 2:
        i, j = rnd.randrange(len(toks)), rnd.randrange(len(toks))
        toks[i], toks[j] = toks[j], toks[i]
        return " ".join(toks)
    if k < 0.7:
        return c[:rnd.randrange(len(c) + 1)]
    if k < 0.78:
        i = rnd.randrange(len(c) + 1)
        return c[:i] + rnd.choice(JUNK) + c[i:]
    if k < 0.84:
        return c.replace("  ", " ")
    if k < 0.9:
        return c.replace(" ", "  ", rnd.randint(1, 3))
    if k < 0.95:
        b = bytearray(c.encode("utf-8", "surrogateescape"))
        for _ in range(rnd.randint(1, 4)):
            if b:
                b[rnd.randrange(len(b))] = rnd.randrange(256)
        return b.decode("latin-1")
    return " ".join(rnd.choice(toks + JUNK) for _ in range(rnd.randint(1, 8)))


MOD_OPTS = ["prefix=foo", "sub=bar", "regex=a.*", "regex=(", "addr={SINK1}", "addr=", "notPrefix=x", "notSub=y", "notRegex=z", "prefix=", "pickle=true", "spool=true", "flush=0", "reconn=0"]


def followup(rnd, keys):
    key = rnd.choice(keys) if keys and rnd.random() < 0.85 else rnd.choice(["nosuch", "", "carbon-default"])
    k = rnd.random()
    if k < 0.5:
        idx = rnd.choice(["0", "1", "2", "3", "-1", "99", "00", "x", ""])
        return "modDest %s %s %s" % (key, idx, " ".join(rnd.sample(MOD_OPTS, rnd.randint(0, 3))))
    if k < 0.8:
        return "modRoute %s %s" % (key, " ".join(rnd.sample(MOD_OPTS, rnd.randint(0, 3))))
    return "delRoute %s" % key


def gen_cmd(rnd, keys=None):
    if keys is not None and rnd.random() < 0.3:
        return followup(rnd, keys)
    if rnd.random() < 0.5:
        c = rnd.choice(DOC_CMDS)
    else:
        e = g20.gen_entry(rnd)
        if e[0] == "agg":
            e = e[:4] + (rnd.choice([1, 1, 2, 10]), rnd.choice([0, 1, 5])) + e[6:]
        c = g20.render_cmd(e)
        for i, a in enumerate(["127.0.0.1:2003", "10.0.0.2:2004", "graphite.prod:2003", "10.1.1.1:2003:a", "localhost"]):
            if rnd.random() < 0.8:
                c = c.replace(" " + a, " {SINK%d}%s" % (i % 3, ":a" if a.endswith(":a") else ""))
    r = rnd.random()
    if r < 0.45:
        return c
    c = mutate_cmd(rnd, c)
    if r > 0.85:
        c = mutate_cmd(rnd, c)
    return c


def enc(s):
    b = s.encode("latin-1", "replace") if isinstance(s, str) else s
    return tg.hx(b)


def traffic(rnd, now, n):
    ops = []
    for _ in range(n):
        k = rnd.random()
        if k < 0.7:
            name = rnd.choice(["stats.timers.app1.requests.x", "a.b.c", "collectd.localhost.cpu", "foo.bar.cpu", "prod.x", "staging.y", "a.x", "servers.s1", "Err/s.q", "m;tag=v", "x.y;a=b;c=d"])
            val = rnd.choice(["1", "0", "-1.5", "1e308", "NaN", "inf", "1e-320", "0x1p3", "123456789012345678901234567890"])
            ts = rnd.choice([str(now), str(now - 1), str(now + 1), str(now - 100), "0", "1", "4294967295", "4294967296", "-1", "1e9", str(now) + ".5"])
            ops.append("m " + enc("%s %s %s" % (name, val, ts)))
        elif k < 0.9:
            ops.append("m " + tg.hx(tg.metric_line(rnd, invalid_p=0.5)[0]))
        else:
            ops.append("m " + tg.hx(bytes(rnd.randrange(256) for _ in range(rnd.randint(0, 40)))))
    return ops


def pickle_frames(rnd, now):
    def item(name, ts, val):
        return b"(S" + repr(name).encode() + b"\n(" + ts + val + b"tp0\ntp1\n"
    body = b"(lp0\n"
    for _ in range(rnd.randint(0, 4)):
        ts = rnd.choice([b"I%d\n" % now, b"F1.5\n", b"L%dL\n" % now, b"S'x'\n", b"N", b"(lp5\n", b"I-1\n", b"L99999999999999999999999L\n"])
        val = rnd.choice([b"F1.0\n", b"I1\n", b"S'1'\n", b"N", b"(dp3\n", b"I00\n", b"Fnan\n", b"L1L\n"])
        body += item(rnd.choice(["a.b", "", "x y", "é"]), ts, val) + b"a"
    body += b"."
    k = rnd.random()
    if k < 0.3:
        body = body[:rnd.randrange(len(body) + 1)]
    elif k < 0.5:
        b = bytearray(body)
        for _ in range(rnd.randint(1, 5)):
            b[rnd.randrange(len(b))] = rnd.randrange(256)
        body = bytes(b)
    elif k < 0.6:
        body = bytes(rnd.randrange(256) for _ in range(rnd.randint(0, 60)))
    elif k < 0.65:
        body = b"\x80\x02]q\x00" + bytes(rnd.randrange(256) for _ in range(rnd.randint(0, 30)))
    ln = len(body)
    if rnd.random() < 0.15:
        ln = rnd.choice([0, 1, ln + 5, max(0, ln - 3), 2 ** 31, 2 ** 32 - 1, 500 * 1024 * 1024 + 1])
    return struct.pack(">I", ln) + body


def gen_case(rnd, now, kind):
    ops = []
    slow = False
    if kind == "admin":
        keys = []
        for _ in range(rnd.randint(1, 7)):
            c = gen_cmd(rnd, keys)
            if c.startswith("addAgg"):
                slow = True
            m = re.match(r"addRoute \S+ (\S+)", c)
            if m:
                keys.append(m.group(1))
            ops.append(("tel " if rnd.random() < 0.3 else "cmd ") + enc(c))
        if rnd.random() < 0.6:
            ops.append("sleep 25")        # let the destinations connect, so that lines reach Conn.Write
        ops += traffic(rnd, now, rnd.randint(3, 25))
        if rnd.random() < 0.5:
            for _ in range(rnd.randint(1, 3)):
                ops.append(("tel " if rnd.random() < 0.3 else "cmd ") + enc(gen_cmd(rnd, keys)))
            ops += traffic(rnd, now, rnd.randint(1, 10))
    elif kind == "toml":
        entries = [g20.gen_entry(rnd) for _ in range(rnd.randint(1, 4))]
        seen = set()
        entries = [e for e in entries if not (e[0] == "route" and (e[2] in seen or seen.add(e[2])))]
        texts, blacks = [], []
        for e in entries:
            if e[0] == "agg":
                e = e[:4] + (rnd.choice([1, 1, 10]), rnd.choice([0, 1])) + e[6:]
                slow = True
            t, _, b = g20.render_toml(e)
            if t:
                texts.append(t)
            if b:
                blacks.append(b)
        toml = ("blacklist = [%s]\n" % ", ".join(g20.tq(b) for b in blacks) if blacks else "") + "\n".join(texts)
        # numeric fields to edge values, keys dropped, strings emptied
        for _ in range(rnd.randint(0, 3)):
            k = rnd.random()
            if k < 0.5:
                nums = list(re.finditer(r"= (-?\d+)\n", toml))
                if nums:
                    m = rnd.choice(nums)
                    toml = toml[:m.start(1)] + rnd.choice(["0", "-1", "-60", "9223372036854775807", "1"]) + toml[m.end(1):]
            elif k < 0.75:
                lines = toml.split("\n")
                if lines:
                    del lines[rnd.randrange(len(lines))]
                toml = "\n".join(lines)
            else:
                strs = list(re.finditer(r"= '([^']*)'", toml))
                if strs:
                    m = rnd.choice(strs)
                    toml = toml[:m.start(1)] + rnd.choice(["", "(", "x", "0"]) + toml[m.end(1):]
        ops.append("toml " + enc(toml))
        ops += traffic(rnd, now, rnd.randint(3, 25))
    else:
        for c in rnd.sample(DOC_CMDS[:9], 3):
            ops.append("cmd " + enc(c))
        ops.append("sleep 25")
        for _ in range(rnd.randint(1, 4)):
            w = rnd.choice(["plain", "udp", "pickle", "pickle", "amqp"])
            if w in ("plain", "udp"):
                data = b"".join(tg.metric_line(rnd, invalid_p=0.4)[0] + rnd.choice([b"\n", b"\r\n", b"", b"\n\n", b"\x00\n"]) for _ in range(rnd.randint(0, 5)))
                if rnd.random() < 0.3:
                    data += bytes(rnd.randrange(256) for _ in range(rnd.randint(0, 100)))
                if rnd.random() < 0.05:
                    data += b"x" * 70000 + b"\n"
                ops.append("%s %s" % (w, tg.hx(data)))
            elif w == "pickle":
                ops.append("pickle " + tg.hx(b"".join(pickle_frames(rnd, now) for _ in range(rnd.randint(1, 3)))))
            else:
                bodies = [b"\n".join(tg.metric_line(rnd, invalid_p=0.4)[0] for _ in range(rnd.randint(0, 3))) + rnd.choice([b"", b"\n", b"\r"]) for _ in range(rnd.randint(1, 3))]
                ops.append("amqp " + " ".join(tg.hx(b) for b in bodies))
    if slow and rnd.random() < 0.5:
        ops.append("sleep 2300")      # aggregator ticks: let the background goroutines meet what was accepted
    else:
        ops.append("sleep 30")
    return ops


EDGE_NUMS = ["0", "1", "00", "-1", "4294967296", "9223372036", "9223372037", "9223372036855", "36028797018963968", "72057594037927936", "9223372036854775807",
             "18446744073709551615", "18446744073709551616", "99999999999999999999"]
# buffer sizes: values between about 1e8 and 2^31 are accepted and can exhaust memory — that is resource exhaustion the
# operator asked for, not a parameter that cannot work, and is not searched; beyond 2^31-1 a size must be rejected
EDGE_SIZES = ["0", "1", "00", "-1", "2147483648", "4294967296", "9223372036854775807", "99999999999999999999"]
SIZE_OPTS = {"connbuf", "iobuf", "spoolbuf", "bufSize", "flushMaxNum", "concurrency"}


def edge_vals(opt):
    return EDGE_SIZES if opt in SIZE_OPTS else EDGE_NUMS
DEST_NUM_OPTS = ["flush", "reconn", "connbuf", "iobuf", "spoolbuf", "spoolmaxbytesperfile", "spoolsyncevery", "spoolsyncperiod", "spoolsleep", "unspoolsleep"]
GN_OPTS = ["bufSize", "flushMaxNum", "flushMaxWait", "timeout", "concurrency", "orgId", "errBackoffMin", "errBackoffFactor"]
FUNS = ["avg", "count", "delta", "derive", "last", "max", "min", "stdev", "sum"]


def edge_cases(now):
    """the finite table of boundary configurations: every numeric parameter of every command x boundary values, index boundaries
    of modDest / DelDestination, destination counts of consistentHashing routes — each followed by traffic and time to run"""
    cases = []
    few = ["m " + enc("a.b.c 1 %d" % now), "m " + enc("stats.timers.app1.requests.x 2 %d" % now), "m " + enc("web1.x 3 %d" % (now - 1)),
           "m " + enc("a.b.c 4 %d.5" % now), "m " + enc("x;t=v 5 %d" % now)]

    def add(tag, ops, wait=60):
        cases.append(("edge%s%d" % (tag, len(cases)), ops + ["sleep 30"] + few + ["sleep %d" % wait]))
    for opt in DEST_NUM_OPTS:
        for v in edge_vals(opt):
            for spool in ("true", "false"):
                add("dest", ["cmd " + enc("addRoute sendAllMatch k  {SINK0} %s=%s spool=%s" % (opt, v, spool))])
            add("destch", ["cmd " + enc("addRoute consistentHashing k  {SINK0} %s=%s  {SINK1}:b" % (opt, v))])
            add("desttoml", ["toml " + enc("[[route]]\nkey = 'k'\ntype = 'sendAllMatch'\ndestinations = [\n  '{SINK0} %s=%s spool=true',\n]\n" % (opt, v))])
    for i, fn in enumerate(FUNS):
        for iv in EDGE_NUMS:
            for w in (["0", "1"] if iv != "1" else EDGE_NUMS):
                add("agg", ["cmd " + enc("addAgg %s regex=^(.*)$ agg.$1 %s %s" % (fn, iv, w)), "cmd " + enc("addRoute sendAllMatch k  {SINK0}")],
                    wait=2300 if (iv == "1" and w in ("0", "1")) else 60)
        for iv in ["0", "-1", "-60", "1", "9223372037", "36028797018963968", "-36028797018963968"]:
            for w in ["0", "-1", "1"]:
                add("aggtoml", ["toml " + enc("[[aggregation]]\nfunction = '%s'\nregex = '^(.*)$'\nformat = 'agg.$1'\ninterval = %s\nwait = %s\n" % (fn, iv, w))],
                    wait=2300 if (iv == "1" and i % 3 == 0) else 60)
    add("aggnoregex", ["toml " + enc("[[aggregation]]\nfunction = 'sum'\nformat = 'agg'\ninterval = 10\nwait = 1\n")])
    add("aggnoregex", ["toml " + enc("[[aggregation]]\nfunction = 'sum'\nprefix = 'a'\nformat = 'agg'\ninterval = 10\nwait = 1\n")])
    add("aggnoregex", ["cmd " + enc("addAgg sum prefix=a agg 10 1")])
    add("aggbadfun", ["toml " + enc("[[aggregation]]\nfunction = 'nosuch'\nregex = '(.*)'\nformat = 'agg'\ninterval = 10\nwait = 1\n")])
    for opt in GN_OPTS:
        for v in edge_vals(opt) + ["0.5", "1.5", "-0.5"]:
            add("gn", ["cmd " + enc("addRoute grafanaNet gn  http://127.0.0.1:9/metrics key {SCHEMAS} {AGGFILE} %s=%s" % (opt, v))])
    for opt in ["bufSize", "flushMaxNum", "flushMaxWait", "timeout", "concurrency", "orgId", "errBackoffMin"]:
        for v in ["0", "-1", "1"]:
            add("gntoml", ["toml " + enc("[[route]]\nkey = 'gn'\ntype = 'grafanaNet'\naddr = 'http://127.0.0.1:9/metrics'\napikey = 'k'\nschemasFile = '{SCHEMAS}'\naggregationFile = '{AGGFILE}'\n%s = %s\n" % (opt, v))])
    for addr in ["http://127.0.0.1:9/metrics", "http://127.0.0.1:9/metrics/", "http://127.0.0.1:9/metrics//", "http://127.0.0.1:9/metrics?x=1", "http://127.0.0.1:9/metrics/?x=1",
                 "http://127.0.0.1:9/metrics#f", "http://127.0.0.1:9/graphite/metrics", "http://127.0.0.1:9/", "http://127.0.0.1:9", "127.0.0.1:9/metrics", "/metrics", "metrics", "",
                 "http://[::1/metrics", "http://127.0.0.1:9/a%2Fmetrics", "http://127.0.0.1:9/%6detrics", "http://127.0.0.1:9/metrics%2F", "http://127.0.0.1:9/x/../metrics", "http://h/metrics;p"]:
        add("gnaddr", ["cmd " + enc("addRoute grafanaNet gn  %s key {SCHEMAS} {AGGFILE}" % addr)])
        add("gnaddrtoml", ["toml " + enc("[[route]]\nkey = 'gn'\ntype = 'grafanaNet'\naddr = '%s'\napikey = 'k'\nschemasFile = '{SCHEMAS}'\naggregationFile = '{AGGFILE}'\n" % addr)])
    for kv in ["sslverify = 'x'", "spool = 1", "blocking = 'true'", "sslverify = 0", "spool = []", "blocking = 1.5", "concurrency = 'x'", "bufSize = 1.5", "errBackoffFactor = 'x'", "errBackoffMin = 1.5"]:
        add("gntypes", ["toml " + enc("[[route]]\nkey = 'gn'\ntype = 'grafanaNet'\naddr = 'http://127.0.0.1:9/metrics'\napikey = 'k'\nschemasFile = '{SCHEMAS}'\naggregationFile = '{AGGFILE}'\n%s\n" % kv)])
    for txt in ["route = 5\n", "route = 'x'\n", "[route]\nkey = 'k'\n", "[[route]]\n", "[[route]]\nkey = 'k'\n", "[[route]]\nkey = 'k'\ntype = 'nosuch'\n", "[[route]]\nkey = 'k'\ntype = 'sendAllMatch'\n",
                "[[route]]\nkey = 'k'\ntype = 'sendAllMatch'\ndestinations = 'x'\n", "[[route]]\nkey = 'k'\ntype = 'sendAllMatch'\ndestinations = [1]\n", "[[route]]\nkey = 'k'\ntype = 'sendAllMatch'\ndestinations = ['']\n",
                "[[route]]\nkey = 'k'\ntype = 'grafanaNet'\n", "[[aggregation]]\n", "[[rewriter]]\n", "blacklist = 5\n", "blacklist = ['']\n", "blacklist = ['x']\n", "blacklist = ['prefix']\n", "blacklist = ['prefix  a']\n"]:
        add("tomlshape", ["toml " + enc(txt)])
    for typ, dests in [("sendAllMatch", 1), ("sendAllMatch", 2), ("sendFirstMatch", 1), ("sendFirstMatch", 3), ("consistentHashing", 2), ("consistentHashing", 3)]:
        base = "addRoute %s k  %s" % (typ, "  ".join("{SINK%d}:%s" % (j, "abc"[j]) for j in range(dests)))
        for idx in ["0", "1", "2", "3", "4", "99", "4294967296", "9223372036854775807", "99999999999999999999"]:
            add("moddest", ["cmd " + enc(base), "cmd " + enc("modDest k %s prefix=foo" % idx), "cmd " + enc("modDest k %s addr={SINK2}" % idx)])
        for idx in range(0, dests + 2):
            # remove destinations one by one, down to none, with traffic in between
            ops = ["cmd " + enc(base)]
            for _ in range(dests + 1):
                ops += ["deldest %s %d" % (tg.hx(b"k"), idx)] + few[:2]
                idx = 0
            add("deldest", ops)
        add("modroute", ["cmd " + enc(base), "cmd " + enc("modRoute k regex=("), "cmd " + enc("modRoute k prefix= sub="), "cmd " + enc("delRoute k"), "cmd " + enc("delRoute k"),
                         "cmd " + enc("modDest k 0 prefix=a"), "cmd " + enc("modRoute k prefix=a")])
    for n in range(0, 3):
        add("chcount", ["cmd " + enc("addRoute consistentHashing k  " + "  ".join("{SINK%d}" % j for j in range(n)))])
        add("chcounttoml", ["toml " + enc("[[route]]\nkey = 'k'\ntype = 'consistentHashing'\ndestinations = [%s]\n" % ", ".join("'{SINK%d}'" % j for j in range(n)))])
    for old, new, mx in [("foo", "bar", "0"), ("foo", "bar", "-1"), ("foo", "bar", "99999999999999999999"), ("/(/", "x", "-1"), ("/a/", "${9}", "-1"), ("/a/", "x", "1"), ("", "", "1"), ("a", "", "-2"), ("/", ".", "-1"), ("//", ".", "-1"), ("///", "x", "-1"), ("/", "/", "1"), ("a", "/", "-1")]:
        add("rw", ["cmd " + enc("addRewriter %s %s %s" % (old, new, mx)), "cmd " + enc("addRoute sendAllMatch k  {SINK0}")])
        add("rwtoml", ["toml " + enc("[[rewriter]]\nold = '%s'\nnew = '%s'\nmax = %s\n" % (old, new, mx if not mx.startswith("9999") else "1"))])
    for kind, pat in [("regex", "("), ("regex", "*"), ("prefix", ""), ("sub", ""), ("regex", ""), ("nosuch", "x")]:
        add("black", ["cmd " + enc("addBlack %s %s" % (kind, pat))])
        add("blacktoml", ["toml " + enc("blacklist = ['%s %s']\n" % (kind, pat))])
    return cases


SIG = re.compile(r"(panic: .*|fatal error: .*)")
FRAME = re.compile(r"(github\.com/grafana/carbon-relay-ng/[^\s(]+)")


def signature(stderr):
    m = SIG.search(stderr)
    msg = m.group(1)[:160] if m else "exit without panic message"
    msg = re.sub(r"0x[0-9a-f]+", "0x..", msg)
    msg = re.sub(r"\d{3,}", "N", msg)
    fr = [f for f in FRAME.findall(stderr) if "/verif/" not in f]
    return msg + " @ " + (fr[0] if fr else "?")


def run_cases(cases, timeout):
    """-> list of (case_id, ops, stderr_tail) for every case on which the process died; cases after a crash are run in a new process"""
    crashes = []
    rest = list(cases)
    outcomes = {}
    while rest and len(crashes) < 6:
        inp = "".join("#case %s\n%s\n" % (cid, "\n".join(ops)) for cid, ops in rest)
        rc, so, se = common.run_side(common.HARNESS, ["crash"], inp, timeout)
        prev = None
        for l in so.split("\n"):
            if l.startswith("> "):
                prev = l[2:]
                if prev in ("m", "sleep", "amqp"):
                    outcomes[prev] = outcomes.get(prev, 0) + 1
            elif prev and l and not l.startswith("#case"):
                k = prev + ":" + l.split()[0] + ("" if len(l.split()) == 1 or prev == "tel" else ":" + l.split()[1])
                outcomes[k] = outcomes.get(k, 0) + 1
        if rc == 0:
            break
        done = [l.split()[1] for l in so.split("\n") if l.startswith("#case ")]
        if not done:
            crashes.append((rest[0][0], rest[0][1], "harness died before the first case: " + se[-400:], rc))
            break
        last = done[-1]
        i = [c for c, _ in rest].index(last)
        crashes.append((last, rest[i][1], se, rc))
        rest = rest[i + 1:]
    return crashes, outcomes


def dies(ops, timeout=40):
    rc, so, se = common.run_side(common.HARNESS, ["crash"], "#case s\n" + "\n".join(ops) + "\n", timeout)
    return rc != 0, se


def shrink(ops):
    cur = list(ops)
    tries = 0
    i = 0
    while i < len(cur) and tries < 40:
        cand = cur[:i] + cur[i + 1:]
        if not cand:
            break
        tries += 1
        d, _ = dies(cand)
        if d:
            cur = cand
        else:
            i += 1
    return cur


def search(ctx, name, cases, timeout, shards=8):
    from concurrent.futures import ThreadPoolExecutor
    t0 = time.time()
    # a process is used for a limited number of cases: the tables of finished cases keep their goroutines (reconnect loops,
    # tickers) for a while, and thousands of them in one process starve everything else
    per_proc = 40
    parts = [cases[i:i + per_proc] for i in range(0, len(cases), per_proc)]
    with ThreadPoolExecutor(max_workers=shards) as ex:
        results = list(ex.map(lambda p: run_cases(p, timeout), parts))
    crashes, outcomes = [], {}
    for cr, oc in results:
        crashes += cr
        for k, v in oc.items():
            outcomes[k] = outcomes.get(k, 0) + v
    ctx.histograms[name + "-outcomes"] = outcomes
    found = 0
    seen = set()
    for cid, ops, se, rc in crashes:
        d, se1 = dies(ops)
        if d:
            sig = signature(se1)
            if sig in seen:
                continue
            seen.add(sig)
            ops = shrink(ops)
            d2, se2 = dies(ops)
            se = se2 if d2 else se1
            detail = "the relay process died (%s) on case %s: %s" % ("timeout/hang" if rc == -9 else "exit %d" % rc, cid, signature(se))
        else:
            detail = "the process died while case %s ran but the case alone does not reproduce it (a background goroutine of an earlier case?): %s" % (cid, signature(se))
        ctx.problem("crash", name, ops, detail + "\n" + se[-1200:], True)
        found += 1
    ctx.evaluations += len(cases)
    for cid, ops in cases:
        ctx.nontrivial.add((name, hash(tuple(ops))))
        ctx.hist(name, cid.rstrip("0123456789"))
    ctx.streams.append({"stream": name, "cases": len(cases), "diffs": 0, "monitor_failures": found, "crashed": bool(crashes), "wall_s": round(time.time() - t0, 2)})
    ctx.oblige("crash search %s (%d cases): the process survived every case" % (name, len(cases)), "monitor", not crashes,
               "%d cases killed the process" % len(crashes))
    common.log("  crash search %-22s cases=%-6d crashes=%d %.1fs" % (name, len(cases), len(crashes), time.time() - t0))


def run(ctx):
    ctx.assumptions += ["PARTIAL: the theorems cover the decision logic 'accepted => safe' of the constructors and the panic-site inventory; freedom from Go runtime panics for all byte inputs is searched, not proved",
                        "kafka, pubsub and cloudwatch routes are not constructed (they dial external services)"]
    ctx.prepare()
    ctx.lean(["Crng.Props.C14"],
             ["Crng.Props.C14.agg_accept_safe", "Crng.Props.C14.agg_old_accept_unsafe", "Crng.Props.C14.dest_accept_safe", "Crng.Props.C14.gn_accept_safe",
              "Crng.Props.C14.ch_ring_nonempty", "Crng.Props.C14.index_guard_safe"],
             ties=["Crng.Tie.C14", common.CODE_GUARDS])
    rnd = ctx.rng("c14")
    now = int(time.time())
    n = ctx.scale(240, 4000)
    cases = []
    for i in range(n):
        kind = ["admin", "admin", "toml", "input"][i % 4]
        cases.append(("%s%d" % (kind, i), gen_case(rnd, now, kind)))
    search(ctx, "crash", cases, ctx.scale(900, 1200))
    search(ctx, "edges", edge_cases(now), ctx.scale(900, 1200), shards=16)
