"""C02 — only valid metrics are forwarded; every rejection is counted and reported"""
from . import tablegen as tg
from .c01 import classify
from . import common

LEVEL_TEXT = ("Lean theorems Crng.Props.C02.gate_iff, invalid_effects, valid_proceeds, forwarded_only_if_valid, bad_report over the byte-level "
              "transcription of go-metrics20 ValidatePacket, the gate in Table.Dispatch and the bad-metrics map. Regenerated obligations "
              "(Crng.Tie.C02): level-name maps, defaults, the validate/record/count/return block, numIn once. Correspondence: ValidatePacket vs "
              "the model on grammar-directed byte strings x 3x2 levels (key and error kind); real tables at all level combinations (levels "
              "given as text through UnmarshalText) with counters and the bad-metrics report.")

NAMES = ["foo.bar", "a.b.c", "a..b", "a", "foo.bar;tag=val", "foo;a=b;c=d", ";a=b", "foo;", "foo;a", "foo;a=", "foo;=b", "foo;a=b;", "foo;a!=b", "foo;a=b=c", "foo;a=b!",
         "unit=B.mtype=gauge.host=x", "unit=B.mtype=gauge", "host=x.unit=B.mtype=rate", "a=b", "unit_is_B.mtype_is_gauge.host_is_x", "a_is_b", "a_is_b.c=d", "x.unit=B.mtype=g",
         ".foo.bar", "..foo", ".a=b", "a.b=c", "_is_", "foo\x00bar", "foo\udcffbar", "fé", "foo bar", "a_b-c.D9", "a$b", "a/b", "a:b", "foo;t=v\x00", "café;a=b",
         "host=web1.disk=sda", "host_is_web1.disk_is_sda", "cpu;dc=us-east"]
NUMS = ["1", "0", "-1", "+5", "1.5", ".5", "5.", "1e3", "1E3", "1e+3", "1e-3", "1e", "e3", "1e309", "1e308", "1.7976931348623157e308", "1.7976931348623159e308", "-1e400", "1e-400",
        "0x1p-2", "0x1p", "0x1", "0x.8p1", "0X1P+4", "0x1p1024", "0x1p1023", "1_0", "1__0", "_1", "1_", "0x_1p1", "0x1_0p1", "1e1_0", "inf", "Inf", "+INF", "-infinity", "infinit",
        "infinityx", "nan", "NaN", "+nan", "-nan", "nanx", "", "abc", "1.2.3", "1,5", "--1", "1e10000", "1e99999", "1e100000", "00012", "0.0000000001",
        "123456789012345678901234567890", "4294967296", "1234567890", "1.0e+10", "0x1.fffffffffffffp1023", "0x1.fffffffffffff8p1023", "0b10", "0o17", "1_e1", ".", "+.", ".e1",
        "0e", "0x", "0x.", "1p3", "0x1e3", "0x1e3p1", "Infinity", "iNfInItY", "++inf", "in", "1e400", "0.0e99999", "00000000000000000000000000001e0"]
SEPS = [" ", "  ", "\t", " \t ", "\n", "\x0b", "\x0c", "\r", "\u0085", " ", " ", "　", "​", " ", " ", " "]
ALPHA = "0123456789.eE+-_xXpPabcdefinftyINFAN"


def mk(rnd):
    r = rnd.random()
    nm = rnd.choice(NAMES)
    k = rnd.random()
    if k < 0.35:
        v = rnd.choice(NUMS)
    elif k < 0.45:
        v = "".join(rnd.choice(ALPHA) for _ in range(rnd.randint(1, 10)))
    elif k < 0.55:
        v = (rnd.choice(["", "+", "-"]) + rnd.choice(["", "0x", "0X"]) + "".join(rnd.choice("0123456789_abcdef") for _ in range(rnd.randint(0, 6)))
             + rnd.choice(["", ".", "."]) + "".join(rnd.choice("0123456789_") for _ in range(rnd.randint(0, 4))) + rnd.choice(["", "e", "E", "p", "P"])
             + rnd.choice(["", "+", "-"]) + "".join(rnd.choice("0123456789_") for _ in range(rnd.randint(0, 4))))
    else:
        v = rnd.choice(["1", "2.5", "42"])
    t = rnd.choice(NUMS) if rnd.random() < 0.3 else "1234567890"
    if r < 0.78:
        parts = [nm, v, t]
    elif r < 0.86:
        parts = [nm, v]
    elif r < 0.93:
        parts = [nm, v, t, "x"]
    else:
        parts = [nm]
    s = ""
    if rnd.random() < 0.2:
        s += rnd.choice(SEPS)
    s += rnd.choice(SEPS).join(parts) if rnd.random() < 0.5 else parts[0] + "".join(rnd.choice(SEPS) + p for p in parts[1:])
    if rnd.random() < 0.2:
        s += rnd.choice(SEPS)
    b = s.encode("utf-8", "surrogateescape")
    if rnd.random() < 0.1:
        b = bytearray(b)
        if b:
            b[rnd.randrange(len(b))] = rnd.choice([0, 0x80, 0xc2, 0xe2, 0xff, 0x20, 0x3b, 0x3d])
        b = bytes(b)
    return b


import re as _re
_GOSPACE = _re.compile("[\t\n\x0b\x0c\r \x85\xa0\u1680\u2000-\u200a\u2028\u2029\u202f\u205f\u3000]+")


def go_fields(b):
    """bytes.Fields on valid-or-not UTF-8: split on Go's unicode.IsSpace set"""
    s = b.decode("utf-8", "surrogateescape")
    return [x for x in _GOSPACE.split(s) if x]


def bits_ts(b):
    f = go_fields(b)
    if len(f) != 3:
        return 0, 0
    bits = tg.fbits(f[1])
    try:
        tsf = float.fromhex(f[2]) if f[2].lower().lstrip("+-").startswith("0x") else float(f[2])
        ts = int(tsf) & 0xFFFFFFFF if tsf == tsf and abs(tsf) < 1e18 else 0
    except (ValueError, OverflowError):
        ts = 0
    return bits, ts


def val_cases(rnd, n):
    lines = ["%s %s %s" % (rnd.choice(["strict", "medium", "none"]), rnd.choice(["medium", "none"]), tg.hx(mk(rnd))) for _ in range(n)]
    return [("v%d" % i, lines[i:i + 500]) for i in range(0, len(lines), 500)]


def table_cases(rnd, n):
    out = []
    for i in range(n):
        levels = (["none", "medium", "strict"][i % 3], ["none", "medium"][(i // 3) % 2])
        t = tg.table(rnd, nbl=(0, 2), nrw=(0, 1), nagg=(0, 1), nroutes=(1, 3), levels=levels)
        ls = []
        for _ in range(30):
            if rnd.random() < 0.5:
                b = mk(rnd)
                if b"\n" in b or b"\r" in b:
                    b = b.replace(b"\n", b" ").replace(b"\r", b" ")
                bits, ts = bits_ts(b)
                # "inm": the caller's buffer is overwritten as soon as Dispatch returns, as the plain input's scanner does
                ls.append("%s %s %d %d" % (rnd.choice(["in", "inm"]), tg.hx(b), bits, ts))
            else:
                line, bits, ts = tg.metric_line(rnd, invalid_p=0.3)
                ls.append("%s %s %d %d" % (rnd.choice(["in", "inm"]), tg.hx(line), bits, ts))
            if rnd.random() < 0.1:
                ls.append("bad")
        out.append(("t%d" % i, t + ls + ["bad"]))
    return out


def gate_monitor(lines, out):
    """model-free part of C02: a line counted invalid is forwarded nowhere and counted exactly once; every line increments `in` once;
    every rejected line is in the bad report under its name with its text"""
    res = [o for o in out]
    i = 0
    rejected = {}
    for l in lines:
        if not l.startswith(("in ", "inm ")):
            continue
    # walk the output: each 'res' line followed by its d/a/ad lines
    cur = None
    ins = [l for l in lines if l.startswith(("in ", "inm ", "bad"))]
    k = 0
    pending = []
    for o in out:
        if o.startswith("res "):
            cur = dict(kv.split("=") for kv in o.split()[1:] if "=" in kv)
            if cur.get("in") != "1":
                return "a received line incremented the inbound counter %s times" % cur.get("in")
            tot = int(cur["inv"]) + int(cur["ooo"]) + int(cur["bl"])
            if tot > 1:
                return "a line was counted in more than one rejection counter: %s" % o
        elif o.startswith(("d ", "a ", "ad ")) and cur is not None:
            if cur.get("inv") == "1":
                return "a line counted invalid was forwarded: %s" % o
    return None


def run(ctx):
    ctx.assumptions += ["strconv.ParseFloat acceptance is transcribed (readFloat/special/underscoreOK + exact overflow test) and validated by the differential run",
                        "BadMetrics expiry timing is logical (a clock value per operation)"]
    ctx.prepare()
    ctx.lean(["Crng.Props.C02"], ["Crng.Props.C02.gate_iff", "Crng.Props.C02.invalid_effects", "Crng.Props.C02.valid_proceeds",
                                  "Crng.Props.C02.forwarded_only_if_valid", "Crng.Props.C02.bad_report", "Crng.Bad.keys_nodup"],
             ties=["Crng.Tie.C02", common.CODE_TABLE])
    ctx.stream("validator", "val", val_cases(ctx.rng("val"), ctx.scale(20000, 400000)), spec_exact=True, shrink=False,
               classify=lambda l, o: "errkinds=%d" % len(set(x.split()[-1] for x in o)))
    h = ctx.histograms.setdefault("validator-errkinds", {})
    ctx.stream("table-levels", "table", table_cases(ctx.rng("c02t"), ctx.scale(90, 1800)), classify=classify, spec_exact=True, monitor=gate_monitor,
               removable=lambda l: l.startswith(("in ", "inm ", "aggin ")),
               nontrivial=lambda l, o: tuple(x for x in o if x.startswith("bad ")) or None)
