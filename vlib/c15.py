"""C15 — consistent hashing agrees with Carbon and moves only the keys it must"""
import bisect
import hashlib
import itertools
from . import tablegen as tg, gen
from . import common

LEVEL_TEXT = ("Lean theorems Crng.Props.C15.lookup_eq_carbon, owner_unique, order_independent, one_destination, add_minimal, remove_minimal, "
              "addr_split for an arbitrary position function over a model of route/consistent_hashing.go (ring sorted by Less, sort.Search "
              "modulo length) against Carbon 0.9.x's rule stated on the set of ring entries. Regenerated obligations: 100 replicas, replica key "
              "pieces, MD5 first two bytes big-endian, Less, the Search predicate and the modulo, hasher rebuilt by every route mutator. "
              "Correspondence: the real ConsistentHashing route (destination identified by its drop counter) vs the model incl. Lean MD5, on "
              "node sets with/without ports and instances, all listing orders for small sets, add/remove histories; monitor: a python "
              "transcription of Carbon's ConsistentHashRing.")


class CarbonRing:
    """transcription of carbon 0.9.x lib/carbon/hashing.py ConsistentHashRing"""

    def __init__(self, nodes, replica_count=100):
        self.ring = []
        self.nodes = set()
        self.replica_count = replica_count
        for n in nodes:
            self.add_node(n)

    @staticmethod
    def compute_ring_position(key):
        big_hash = hashlib.md5(key.encode() if isinstance(key, str) else key).hexdigest()
        return int(big_hash[:4], 16)

    def add_node(self, node):
        self.nodes.add(node)
        for i in range(self.replica_count):
            replica_key = "%s:%d" % (self._repr(node), i)
            position = self.compute_ring_position(replica_key)
            entry = (position, self._sortkey(node), node)
            bisect.insort(self.ring, entry)

    @staticmethod
    def _repr(node):
        server, instance = node
        return "('%s', %s)" % (server, "None" if instance is None else "'%s'" % instance)

    @staticmethod
    def _sortkey(node):
        # python 2 orders None before any string
        return (node[0], "" if node[1] is None else node[1])

    def get_node(self, key):
        position = self.compute_ring_position(key)
        search_entry = (position, ("", ""), None)
        index = bisect.bisect_left([(e[0], e[1]) for e in self.ring], (position, ("", ""))) % len(self.ring)
        return self.ring[index][2]


def node_of(addr):
    parts = addr.split(":")
    if len(parts) == 3:
        return (parts[0], parts[2])
    return (parts[0], None)


HOSTS = ["10.0.0.1", "10.0.0.2", "10.0.0.3", "graphite1", "graphite2.example.com", "a", "b", "cache-0", "cache-1", "192.168.1.10", "h"]


def addr(rnd, used):
    for _ in range(100):
        h = rnd.choice(HOSTS)
        k = rnd.random()
        if k < 0.25:
            a = h
        elif k < 0.55:
            a = "%s:%d" % (h, rnd.choice([2003, 2004, 2103]))
        else:
            a = "%s:%d:%s" % (h, rnd.choice([2003, 2004]), rnd.choice(["a", "b", "c", "1", "inst"]))
        if node_of(a) not in used:
            used.add(node_of(a))
            return a
    return None


# names with equal FNV-1a 64 digests (equal digests survive a common suffix): the destination is chosen by the name, so anything
# that identifies a name by a 64 bit digest (a lookup cache, say) sends one of them where the other belongs
FNV_PAIRS = (("8yn0iYCKYHlIj4-BwPqk", "GReLUrM4wMqfg9yzV3KQ"), ("gMPflVXtwGDXbIhP73TX", "LtHf1prlU1bCeYZEdqWf"))


def names(rnd, n):
    out = [gen.name(rnd, 4) + rnd.choice(["", ".count", "%d" % rnd.randint(0, 999)]) for _ in range(n)]
    k = 0
    for suf in ("", ".count", ".%d" % rnd.randint(0, 99)):
        for a, b in FNV_PAIRS:
            if k + 1 < len(out):
                out[k], out[k + 1] = (a + suf, b + suf) if rnd.random() < 0.5 else (b + suf, a + suf)
                k += 2
    return out


def cases(rnd, n, nkeys, big=False):
    out = []
    for i in range(n):
        used = set()
        k = rnd.randint(1, 12) if not big else rnd.randint(16, 30)
        addrs = [a for a in (addr(rnd, used) for _ in range(k)) if a]
        ks = names(rnd, nkeys)
        ops = ["new " + ",".join(addrs)] + ["k " + tg.hx(x) for x in ks]
        # listing orders
        if len(addrs) <= 4:
            for perm in list(itertools.permutations(addrs))[1:6]:
                ops.append("new " + ",".join(perm))
                ops += ["k " + tg.hx(x) for x in ks[:15]]
        else:
            sh = addrs[:]
            rnd.shuffle(sh)
            ops.append("new " + ",".join(sh))
            ops += ["k " + tg.hx(x) for x in ks[:15]]
        # add / remove history
        for _ in range(rnd.randint(1, 4)):
            if rnd.random() < 0.5:
                a = addr(rnd, used)
                if a:
                    ops.append("add " + a)
            else:
                ops.append("del %d" % rnd.randint(0, 6))
            ops += ["k " + tg.hx(x) for x in ks[:20]]
        out.append(("r%d" % i, ops))
    return out


def monitor(lines, out):
    cur = []
    ring = None
    oi = 0
    prev = None  # (nodes, {key: owner}) before the last add/del, for minimal movement
    owners = {}
    for l in lines:
        f = l.split()
        if f[0] == "new":
            cur = f[1].split(",")
            ring = CarbonRing([node_of(a) for a in cur])
            owners = {}
            prev = None
        elif f[0] == "add":
            prev = (list(cur), dict(owners), ("add", node_of(f[1])))
            cur.append(f[1])
            ring = CarbonRing([node_of(a) for a in cur])
            owners = {}
        elif f[0] == "del":
            o = out[oi]
            oi += 1
            i = int(f[1])
            if len(cur) < 2 or i >= len(cur):
                if o != "del err":
                    return "removing destination %d of %d was not rejected" % (i, len(cur))
                continue
            if o != "del ok":
                return "removing destination %d of %d failed" % (i, len(cur))
            prev = (list(cur), dict(owners), ("del", node_of(cur[i])))
            del cur[i]
            ring = CarbonRing([node_of(a) for a in cur])
            owners = {}
        elif f[0] == "repoint":
            o = out[oi]
            oi += 1
            i = int(f[1])
            if i >= len(cur):
                if o != "repoint err":
                    return "re-pointing destination %d of %d was not rejected" % (i, len(cur))
                continue
            if o != "repoint ok":
                return "re-pointing destination %d of %d failed" % (i, len(cur))
            prev = None
            cur[i] = f[2]
            ring = CarbonRing([node_of(a) for a in cur])
            owners = {}
        elif f[0] == "k":
            o = out[oi]
            oi += 1
            key = bytes.fromhex(f[1])
            got = o.split()[1] if len(o.split()) > 1 else ""
            if "," in got or got == "":
                return "metric %r was sent to %r destinations (exactly one expected)" % (key, got)
            want = ring.get_node(key)
            gotnode = node_of(cur[int(got)])
            if gotnode != want:
                return "metric %r: relay chose %r, carbon-relay.py's ring chooses %r (destinations %r)" % (key, gotnode, want, cur)
            owners[key] = gotnode
            if prev and key in prev[1]:
                kind, node = prev[2]
                old = prev[1][key]
                if kind == "add" and gotnode != old and gotnode != node:
                    return "adding %r moved %r from %r to %r" % (node, key, old, gotnode)
                if kind == "del" and old != node and gotnode != old:
                    return "removing %r moved %r from %r to %r although it did not own it" % (node, key, old, gotnode)
    return None


def live_cases(rnd, n):
    """connected destinations: hosts that resolve to this machine, port 0 (= a local sink), instances; the ring is rebuilt by
    add/del *after* every destination has connected"""
    out = []
    for i in range(n):
        used = set()
        addrs = []
        for _ in range(rnd.randint(2, 5)):
            a = "%s:0:%s" % (rnd.choice(["127.0.0.1", "localhost"]), rnd.choice(["a", "b", "c", "d", "1", "2", "inst"]))
            if node_of(a) not in used:
                used.add(node_of(a))
                addrs.append(a)
        ks = names(rnd, 40)
        ops = ["new " + ",".join(addrs)] + ["k " + tg.hx(x) for x in ks[:25]]
        for _ in range(rnd.randint(1, 3)):
            if rnd.random() < 0.6:
                a = "%s:0:%s" % (rnd.choice(["127.0.0.1", "localhost"]), rnd.choice(["e", "f", "g", "3", "x"]))
                if node_of(a) not in used:
                    used.add(node_of(a))
                    ops.append("add " + a)
            else:
                ops.append("del %d" % rnd.randint(0, 4))
            ops += ["k " + tg.hx(x) for x in ks]
        if rnd.random() < 0.7:
            # modDest addr=: point an existing destination at another host / instance; the keys follow the new (host, instance)
            a = "%s:0:%s" % (rnd.choice(["127.0.0.1", "localhost"]), rnd.choice(["r1", "r2", "r3", "zz"]))
            if node_of(a) not in used:
                used.add(node_of(a))
                ops.append("repoint %d %s" % (rnd.randint(0, 1), a))
                ops += ["k " + tg.hx(x) for x in ks]
        out.append(("l%d" % i, ops))
    return out


def run(ctx):
    ctx.assumptions += ["Carbon 0.9.x ring (no position bumping on collisions, which carbon >= 1.1 added)", "sort.Sort returns some Less-sorted permutation (ties are identical keys)"]
    ctx.prepare()
    ctx.lean(["Crng.Props.C15"], ["Crng.Props.C15.lookup_eq_carbon", "Crng.Props.C15.owner_unique", "Crng.Props.C15.order_independent",
                                  "Crng.Props.C15.one_destination", "Crng.Props.C15.add_minimal", "Crng.Props.C15.remove_minimal", "Crng.Props.C15.addr_split"],
             ties=["Crng.Tie.C15", common.CODE_HASHER])
    rnd = ctx.rng("md5")
    lines = []
    for _ in range(ctx.scale(3000, 50000)):
        ln = rnd.choice([0, 1, 3, 20, 55, 56, 57, 63, 64, 65, 119, 120, 128, 200])
        lines.append(tg.hx(bytes(rnd.getrandbits(8) for _ in range(ln))))
    ctx.stream("md5", "md5", [("md%d" % i, lines[i:i + 500]) for i in range(0, len(lines), 500)], shrink=False)
    ctx.stream("hash-route", "chash", cases(ctx.rng("c15"), ctx.scale(40, 600), 60), monitor=monitor, spec_exact=True,
               removable=lambda l: l.startswith("k "), timeout=ctx.scale(900, 6000),
               classify=lambda l, o: "nodes=%d" % len(l[0].split()[1].split(",")))
    # many nodes: different nodes share ring positions (ties are decided by host, instance)
    ctx.stream("hash-route-collisions", "chash", cases(ctx.rng("c15b"), ctx.scale(6, 80), 400, big=True), monitor=monitor, spec_exact=True,
               removable=lambda l: l.startswith("k "), timeout=ctx.scale(900, 6000))
    # connected destinations: what connecting does to a destination must not change the ring that add/del rebuild
    ctx.stream("hash-route-live", "chashlive", live_cases(ctx.rng("c15l"), ctx.scale(6, 60)), driver_sub="chash", monitor=monitor, spec_exact=True,
               removable=lambda l: l.startswith("k "), timeout=ctx.scale(600, 3000))
