"""C07 — with spooling on, an endpoint outage loses nothing that is not counted"""
from . import tablegen as tg
from . import common

LEVEL_TEXT = ("Lean theorems Crng.Props.C07.conservation (all schedules of the goroutines' steps, faults, reconnects, under H1 = keepSafe's "
              "10 s assumption and H2 = getRedo after HandleData stopped), never_received_bound, backlog_bounded + drained_all_accounted, "
              "inflight_replayed, keepsafe_getall (slice level, all histories), h1_needed / h2_needed (the hypotheses are necessary). "
              "Regenerated obligations Crng.Tie.C07 + Crng.Tie.C06 on HandleData, getRedo, collectRedo, keepSafe, Spool, relay(). "
              "Correspondence (monitor): a real spooling Destination against a loopback endpoint through outage schedules (before first "
              "connect, single, repeated, during unspooling, stalled-then-closed, across a keepSafe rotation, adversarial getRedo schedule): "
              "every received line intact, distinct never-received <= slow_conn + slow_spool after the backlog has drained. PARTIAL: real "
              "time, scheduler fairness, kernel buffers are not modelled.")


def line(cid, n, size=0):
    name = "m.%s.%d" % (cid, n)
    if size:
        name += "." + "x" * size
    return ("%s 1 1500000000" % name).encode()


def scenario(rnd, cid, kind):
    ops = []
    n = [0]

    def send(k, size=0, pace=None):
        if pace is not None:
            ops.append("pace %d" % pace)
        for _ in range(k):
            ops.append("l " + tg.hx(line(cid, n[0], size)))
            n[0] += 1
    iobuf = rnd.choice([64, 1000, 2000000])
    connbuf = rnd.choice([1, 10, 1000])
    flush = rnd.choice([1, 5, 20])
    reconn = rnd.choice([20, 50])
    pace = rnd.choice([30, 60, 150])
    cfg = "cfg 0 %d %d %d 1 %d %%s" % (iobuf, connbuf, flush, reconn)
    if kind == "single":
        ops.append(cfg % "healthy")
        send(rnd.choice([20, 300]), pace=pace)
        ops.append("down")
        send(rnd.choice([5, 200, 600]))
        if rnd.random() < 0.6:
            # a few long lines (many tags): 3-9 KB each, spooled like the others
            send(rnd.choice([1, 3]), size=rnd.choice([3000, 4100, 5000, 9000]))
            send(rnd.choice([5, 40]))
        ops.append("sleep %d" % rnd.choice([10, 100]))
        ops.append("up healthy")
        if rnd.random() < 0.5:
            ops.append("waitonline 1")
        send(rnd.choice([20, 300]))
    elif kind == "down-first":
        ops.append(cfg % "refuse")
        send(rnd.choice([10, 300]), pace=pace)
        ops.append("up healthy")
        send(rnd.choice([10, 200]))
    elif kind == "repeated":
        ops.append(cfg % "healthy")
        for _ in range(rnd.choice([2, 3, 5])):
            send(rnd.choice([10, 150]), pace=pace)
            ops.append("down")
            send(rnd.choice([0, 10, 150]))
            ops.append("sleep %d" % rnd.choice([5, 40, 120]))
            ops.append("up healthy")
            if rnd.random() < 0.5:
                ops.append("waitonline 1")
        send(50)
    elif kind == "during-unspool":
        ops.append(cfg % "healthy")
        send(50, pace=pace)
        ops.append("down")
        send(rnd.choice([500, 1500]), pace=rnd.choice([60, 150]))
        ops.append("up healthy")
        ops.append("waitonline 1")
        ops.append("sleep %d" % rnd.choice([1, 5, 20]))
        send(rnd.choice([0, 50]))
        ops.append("down")                      # while the backlog is being unspooled
        send(rnd.choice([10, 100]))
        ops.append("sleep 60")
        ops.append("up healthy")
        send(20)
    elif kind == "stalled":
        ops.append(("cfg 0 %d %d %d 1 %d %%s" % (rnd.choice([64, 1000]), rnd.choice([10, 1000]), flush, reconn)) % rnd.choice(["blackhole", "slow"]))
        send(rnd.choice([6000, 8000]), size=rnd.choice([1000, 1200]), pace=0)   # 6-10 MB: beyond the loopback socket buffers (~4 MB here), so HandleData blocks and conn.In backs up
        ops.append("sleep 50")
        ops.append("down")
        send(50, pace=100)
        ops.append("sleep 50")
        ops.append("up healthy")
        send(20)
    elif kind == "rotation":
        # a keepSafe rotation while written lines have not been consumed: both generations must be replayed
        ops.append("keep 2000")
        ops.append(("cfg 0 %d %d %d 1 %d blackhole" % (rnd.choice([64, 1000]), 1000, flush, reconn)))
        ops.append("sleep 300")
        send(rnd.choice([30, 80]), pace=100)
        ops.append("sleep 2200")                # one rotation (at 2 s) has passed, the second (at 4 s) is far
        send(rnd.choice([10, 40]))
        ops.append("sleep 200")
        ops.append("down")
        ops.append("sleep 100")
        ops.append("up healthy")
        send(10)
    elif kind == "held":
        # adversarial schedule: HandleData holds a line it has taken from In while the connection dies and is collected
        ops.append("cfg 0 1000 10 5 1 30 healthy")
        send(rnd.choice([1, 5]), pace=100)
        ops.append("sleep 50")
        ops.append("hold " + tg.hx(line(cid, n[0])))
        send(1)
        ops.append("waitheld")
        ops.append("down")
        ops.append("sleep 30")
        send(rnd.choice([1, 4]))
        ops.append("sleep 100")
        ops.append("release")
        ops.append("sleep 50")
        ops.append("up healthy")
        send(3)
    ops.append("waitonline 1")
    ops.append("drain %d" % 800)
    ops.append("end")
    return ops


KINDS = ["single", "single", "down-first", "repeated", "repeated", "during-unspool", "during-unspool", "stalled", "stalled", "held"]


def monitor(lines, out):
    if any(o == "handoff-stalled" for o in out):
        return "handing a line to the destination blocked for more than 5 s"
    for o in out:
        if o.startswith("cfgerr") or o.startswith("uperr") or o == "held false":
            return "harness: " + o
    for o in out:
        if o.startswith("drained backlog=") and o != "drained backlog=0":
            return "the endpoint stayed up, yet the spool still held %s lines after 90 s (the backlog does not drain)" % o.split("=")[1]
    sent = [bytes.fromhex(l.split()[1]) for l in lines if l.startswith("l ")]
    sentset = set(sent)
    got = set()
    for o in out:
        if o.startswith("recv "):
            h = o.split()[2]
            data = b"" if h == "-" else bytes.fromhex(h)
            parts = data.split(b"\n")
            whole, frag = parts[:-1], parts[-1]
            for w in whole:
                if w not in sentset:
                    return "the endpoint received a line that was never handed off (not intact): %r" % w[:80]
                got.add(w)
            if frag and not any(s.startswith(frag) for s in sentset):
                return "a connection ended with bytes that are not the beginning of a handed-off line: %r" % frag[:80]
    final = None
    for o in out:
        if o.startswith("drops "):
            final = {k: int(v) for k, v in (kv.split("=") for kv in o.split()[1:])}
    if final is None:
        return "harness: no counters"
    if final["conn_down_no_spool"]:
        return "spooling is on, yet %d lines were dropped as connection-down-no-spool" % final["conn_down_no_spool"]
    missing = [x for x in sentset if x not in got]
    allowed = final["slow_conn"] + final["slow_spool"]
    if len(missing) > allowed:
        ex = sorted(missing)[0]
        return "%d distinct handed-off lines never reached the endpoint after it was back, but only %d drops were counted (slow_conn=%d slow_spool=%d); e.g. %r" % (
            len(missing), allowed, final["slow_conn"], final["slow_spool"], ex[:60])
    return None


def nontrivial(lines, out):
    # a case tells something when lines were really replayed or unspooled: more than one connection received data
    conns = [o for o in out if o.startswith("recv ") and o.split()[2] != "-"]
    d = [o for o in out if o.startswith("drops ")]
    return (len(conns), d[0] if d else "", sum(1 for l in lines if l.startswith("l ")))


def run(ctx):
    ctx.assumptions += ["H1: what was written >= 10 s ago on a connection still believed alive has been received (keepSafe's keep period; the code's own stated assumption)",
                        "scheduler fairness and real time are not modelled: 'drains completely' = bounded remaining work + accounted when no step is left; observed on the real code by waiting for quiescence",
                        "the disk queue behind the spool is C08/C09; within one run it is exercised here through the real Spool"]
    ctx.prepare()
    ctx.lean(["Crng.Props.C07"],
             ["Crng.Props.C07.conservation", "Crng.Props.C07.never_received_bound", "Crng.Props.C07.backlog_bounded", "Crng.Props.C07.drained_all_accounted",
              "Crng.Props.C07.inflight_replayed", "Crng.Props.C07.keepsafe_getall", "Crng.Props.C07.h2_needed", "Crng.Props.C07.h1_needed",
              "Crng.Props.C07.counters_exact"],
             ties=["Crng.Tie.C07", "Crng.Tie.C06", common.CODE_KEEPSAFE])
    rnd = ctx.rng("c07")
    n = ctx.scale(16, 160)
    cases = []
    for i in range(n):
        kind = KINDS[i % len(KINDS)]
        cid = "%s%d" % (kind.replace("-", ""), i)
        cases.append((cid, scenario(rnd, cid, kind)))
    for i in range(ctx.scale(1, 6)):
        cases.append(("rotation%d" % i, scenario(rnd, "rotation%d" % i, "rotation")))

    def classify(l, o):
        for x in l:
            if x.startswith("l "):
                return bytes.fromhex(x.split()[1]).split(b".")[1].decode().rstrip("0123456789")
        return "?"
    ctx.stream("outages", "dest", cases, model=False, monitor=monitor, shrink=False, timeout=ctx.scale(600, 5400),
               classify=classify, nontrivial=nontrivial)
