"""Core of the check machinery: regenerate facts, build and audit the Lean side, build the Go
harness from /repo's current tree, run correspondence streams (real code vs Lean model) and
model-free monitors, decide, write evidence and replay files.

Nothing here is specific to one property; see vlib/cXX.py."""
import fcntl
import hashlib
import json
import os
import random
import re
import shutil
import subprocess
import sys
import tempfile
import time
import zlib

VERIF = os.path.dirname(os.path.dirname(os.path.abspath(__file__)))
REPO = os.environ.get("VERIF_REPO", "/repo")
LEAN = os.path.join(VERIF, "lean")
BUILD = os.path.join(VERIF, ".build")
DRIVER = os.path.join(LEAN, ".lake", "build", "bin", "driver")
HARNESS = os.path.join(BUILD, "harness")
EXTRACT = os.path.join(BUILD, "extract")
ALLOWED_AXIOMS = {"propext", "Classical.choice", "Quot.sound"}

GOENV = dict(os.environ, GOFLAGS="-mod=mod", GOPROXY="off", GOSUMDB="off", GOTOOLCHAIN="local",
             CGO_ENABLED=os.environ.get("CGO_ENABLED", "0"))

# regenerated-code obligations (extract/translate.go -> lean/Crng/Gen/Code*.lean -> lean/Crng/Tie/Code*.lean): module, theorems
CODE_TABLE = ("Crng.Tie.CodeTable", ["table_dispatch_trace", "table_dispatchAggregate_trace", "dispatch_invalid", "dispatch_out_of_order",
                                     "dispatch_order_off", "dispatch_blacklisted", "dispatch_accepted", "rewriteFields_eq", "join3"])
CODE_ROUTE = ("Crng.Tie.CodeRoute", ["sendAll_trace", "sendFirst_trace", "metricName_eq"])
CODE_MATCHER = ("Crng.Tie.CodeMatcher", ["matcher_match_eq", "matcher_match_spec", "matcher_prematch_eq", "matcher_regexStage_eq"])
CODE_HASHER = ("Crng.Tie.CodeHasher", ["getDestinationIndex_eq", "getDestinationIndex_owner", "bsearch_congr", "ch_dispatch_trace", "ch_dispatch_name_only", "addrInstanceSplit_instance", "addrInstanceSplit_addr"])
CODE_ORDERED = ("Crng.Tie.CodeOrdered", ["ordered_eq", "hasher_restored", "accept_iff_newer", "accepted_increasing"])
CODE_KEEPSAFE = ("Crng.Tie.CodeKeepSafe", ["add_eq", "getAll_eq", "getAll_after_adds", "getAll_twice"])
CODE_REWRITER = ("Crng.Tie.CodeRewriter", ["do_literal_eq", "do_not_skips", "do_regex", "do_notRe_precedence", "new_eq", "new_then_do_literal"])
CODE_TABLEOPS = ("Crng.Tie.CodeTableOps", ["addRoute_eq", "addBlacklist_eq", "addAggregator_eq", "addRewriter_eq", "delBlacklist_eq",
                                             "delRewriter_eq", "delAggregator_eq", "delRoute_eq", "cut_eq_eraseIdx", "addDestination_eq", "delDestination_eq"])
CODE_COMPOSE = ("Crng.Tie.CodeCompose", ["dispatch_dest_sends", "rejected_no_dest_sends", "consumed_iff", "aggTrace_no_dest_send",
                                           "sendAllRoute_dispatch", "sendFirstRoute_dispatch", "destination_match_spec", "baseRoute_match_spec"])
CODE_READDEST = ("Crng.Tie.CodeReadDest", ["readDestination_eq", "loop_eq", "defaults", "option_step", "unknown_option_rejected", "whileP_congr", "optLoop_pairs", "applyOpt_sets_its_field"])
CODE_GUARDS = ("Crng.Tie.CodeGuards", ["destination_guards_iff", "grafanaNet_guards_iff"])
CODE_CFG = ("Crng.Tie.CodeCfg", ["initAggregation_eq", "initRewrite_eq", "initBlacklist_eq", "agg_sub_wins"])
CODE_READAGG = ("Crng.Tie.CodeReadAgg", ["readAddAgg_eq", "loop1_eq", "loop2_eq", "body1_eq", "body2_eq", "mSet_commute", "trailing_defaults"])
CODE_AGREE = ("Crng.Tie.CodeAgree", ["agg_cmd_toml_agree", "readAddBlack_eq", "black_cmd_toml_agree", "rewriter_cmd_toml_agree", "readRouteOpts_eq", "loop3_eq", "body3_eq"])
CODE_PICKLE = ("Crng.Tie.CodePickleItems", ["items_trace", "item_independence", "forRange_each"])
CODE_AGG = ("Crng.Tie.CodeAgg", ["addMaybe_eq", "withheld_consumed", "no_dropraw_never_withholds"])

TRUSTED_BASE = [
    "Lean 4.33.0 kernel (type-checks every theorem; no sorry/admit/own axioms; axioms used: subset of propext, Classical.choice, Quot.sound, audited with #print axioms on every run)",
    "fact extractor /verif/extract (go/ast over /repo's working tree -> lean/Crng/Gen/*.lean) and its Go->Lean translator for the decision-logic functions (extract/translate.go -> Crng/Gen/Code*.lean; what it drops or identifies is listed at the top of that file) with the hand-written value domain / interfaces of lean/Crng/CodePrelude.lean",
    "correspondence harness /verif/harness (drives the real code built with -tags verif) and the Lean driver (runs the model's executable definitions); python orchestrator compares the two output streams",
    "externals modelled, not verified: Go regexp/strconv/bufio/sort/crypto-md5/fnv, og-rek, toml decoding, kernel TCP and filesystem, Go scheduler and memory model",
]


def log(*a):
    print(*a, file=sys.stderr, flush=True)


def run(cmd, cwd=None, env=None, inp=None, timeout=None):
    """run a command, return (rc, stdout, stderr) as text; rc = -9 on timeout"""
    try:
        p = subprocess.run(cmd, cwd=cwd, env=env, input=inp, capture_output=True, timeout=timeout)
        return p.returncode, p.stdout.decode("utf-8", "replace"), p.stderr.decode("utf-8", "replace")
    except subprocess.TimeoutExpired as e:
        so = (e.stdout or b"").decode("utf-8", "replace")
        se = (e.stderr or b"").decode("utf-8", "replace")
        return -9, so, se + "\nTIMEOUT"


class Lock:
    """global build lock: lake and go build must not run concurrently from two checks"""

    def __enter__(self):
        os.makedirs(BUILD, exist_ok=True)
        self.f = open(os.path.join(BUILD, "lock"), "w")
        fcntl.flock(self.f, fcntl.LOCK_EX)
        return self

    def __exit__(self, *a):
        fcntl.flock(self.f, fcntl.LOCK_UN)
        self.f.close()


def write_if_changed(path, content):
    try:
        if open(path).read() == content:
            return False
    except OSError:
        pass
    os.makedirs(os.path.dirname(path), exist_ok=True)
    tmp = path + ".tmp%d" % os.getpid()
    with open(tmp, "w") as f:
        f.write(content)
    os.replace(tmp, path)
    return True


# --------------------------------------------------------------------------- builds

def go_build(srcdir, outpath, tags=None):
    """build a Go main package from srcdir into outpath atomically"""
    if os.path.exists(os.path.join(srcdir, "go.mod")) and "=> /repo" in open(os.path.join(srcdir, "go.mod")).read():
        shutil.copyfile(os.path.join(REPO, "go.sum"), os.path.join(srcdir, "go.sum"))
    tmp = outpath + ".new%d" % os.getpid()
    cmd = ["go", "build"]
    if tags:
        cmd += ["-tags", tags]
    cmd += ["-o", tmp, "."]
    rc, so, se = run(cmd, cwd=srcdir, env=GOENV, timeout=900)
    if rc != 0:
        try:
            os.remove(tmp)
        except OSError:
            pass
        return False, so + se
    os.replace(tmp, outpath)
    return True, ""


def tree_hash(dirs, exts=(".go", ".mod", ".sum")):
    h = hashlib.sha256()
    for d in dirs:
        for dp, dns, fns in os.walk(d):
            dns[:] = sorted(x for x in dns if x not in (".git", ".lake", "node_modules"))
            for fn in sorted(fns):
                if fn.endswith(exts):
                    p = os.path.join(dp, fn)
                    h.update(p.encode())
                    try:
                        h.update(open(p, "rb").read())
                    except OSError:
                        pass
    return h.hexdigest()


def cached_build(key_dirs, stamp, outpath, builder):
    key = tree_hash(key_dirs)
    sp = os.path.join(BUILD, stamp)
    try:
        if os.path.exists(outpath) and open(sp).read() == key:
            return True, ""
    except OSError:
        pass
    ok, msg = builder()
    if ok:
        with open(sp, "w") as f:
            f.write(key)
    else:
        try:
            os.remove(sp)
        except OSError:
            pass
    return ok, msg


def build_extract():
    d = os.path.join(VERIF, "extract")
    return cached_build([d], "extract.stamp", EXTRACT, lambda: go_build(d, EXTRACT))


def regen_facts():
    """run the extractor over /repo's working tree; rewrites lean/Crng/Gen/*.lean (only files whose
    content changed are touched) and removes stale generated files. Returns (ok, message)."""
    ok, msg = build_extract()
    if not ok:
        return False, "extractor does not build: " + msg
    gen = os.path.join(LEAN, "Crng", "Gen")
    os.makedirs(gen, exist_ok=True)
    with tempfile.TemporaryDirectory(prefix="crnggen") as td:
        rc, so, se = run([EXTRACT, REPO, td], timeout=300)
        if rc != 0:
            return False, "extractor failed: " + (so + se)[-2000:]
        for fn in os.listdir(td):
            if fn.endswith(".json"):
                shutil.copyfile(os.path.join(td, fn), os.path.join(BUILD, fn))
                os.remove(os.path.join(td, fn))
        new = sorted(os.listdir(td))
        for fn in os.listdir(gen):
            if fn not in new:
                os.remove(os.path.join(gen, fn))
        for fn in new:
            write_if_changed(os.path.join(gen, fn), open(os.path.join(td, fn)).read())
    return True, ""


RELAY = os.path.join(BUILD, "relay")


def build_relay():
    """the relay binary itself, built with -tags verif from /repo's working tree (used for config interpolation)"""
    d = os.path.join(REPO, "cmd", "carbon-relay-ng")

    def b():
        tmp = RELAY + ".new%d" % os.getpid()
        rc, so, se = run(["go", "build", "-tags", "verif", "-o", tmp, "."], cwd=d, env=GOENV, timeout=900)
        if rc != 0:
            return False, so + se
        os.replace(tmp, RELAY)
        return True, ""
    return cached_build([REPO], "relay.stamp", RELAY, b)


def build_harness():
    """always reflects /repo's current working tree: rebuilt whenever any Go source of /repo or the harness changed"""
    d = os.path.join(VERIF, "harness")
    return cached_build([d, REPO], "harness.stamp", HARNESS, lambda: go_build(d, HARNESS, tags="verif"))


_LAKE_ERR = re.compile(r"^error: (\S+?):(\d+):(\d+): (.*)$")


def lake_build(targets):
    """returns (ok, failing, text): failing = list of (file, line, first line of message)"""
    rc, so, se = run(["lake", "build"] + targets, cwd=LEAN, timeout=3000)
    text = so + se
    failing = []
    for ln in text.splitlines():
        m = _LAKE_ERR.match(ln.strip())
        if m:
            failing.append((m.group(1), int(m.group(2)), m.group(4)))
    return rc == 0, failing, text


_FORBIDDEN = re.compile(r"\bsorry\b|\badmit\b|^\s*axiom\s|native_decide|bv_decide|implemented_by|\bunsafe\s|maxHeartbeats\s+0")


def grep_forbidden():
    """forbidden constructs outside comments in any Lean source of the project"""
    hits = []
    for root in ("Crng", "Drv"):
        for dp, _, fns in os.walk(os.path.join(LEAN, root)):
            for fn in fns:
                if not fn.endswith(".lean"):
                    continue
                path = os.path.join(dp, fn)
                depth = 0
                for i, ln in enumerate(open(path, encoding="utf-8"), 1):
                    opens = ln.count("/-")
                    closes = ln.count("-/")
                    if depth == 0 and opens == 0:
                        code = ln.split("--", 1)[0]
                        if _FORBIDDEN.search(code):
                            hits.append("%s:%d: %s" % (os.path.relpath(path, LEAN), i, ln.strip()))
                    elif depth == 0 and _FORBIDDEN.search(ln.split("/-", 1)[0]):
                        hits.append("%s:%d: %s" % (os.path.relpath(path, LEAN), i, ln.strip()))
                    depth = max(0, depth + opens - closes)
    return hits


def print_axioms(imports, theorems):
    """returns dict theorem -> set(axioms) | None when the theorem is missing / file fails"""
    src = "".join("import %s\n" % m for m in imports) + "".join("#print axioms %s\n" % t for t in theorems)
    path = os.path.join(BUILD, "audit_%d.lean" % os.getpid())
    with open(path, "w") as f:
        f.write(src)
    rc, so, se = run(["lake", "env", "lean", path], cwd=LEAN, timeout=1200)
    os.remove(path)
    text = so + se
    res = {t: None for t in theorems}
    # output: 'T' depends on axioms: [a, b]   |   'T' does not depend on any axioms
    for m in re.finditer(r"'([^']+)' depends on axioms: \[([^\]]*)\]", text.replace("\n ", " ")):
        res[m.group(1)] = set(x.strip() for x in m.group(2).split(",") if x.strip())
    for m in re.finditer(r"'([^']+)' does not depend on any axioms", text):
        res[m.group(1)] = set()
    return res, text


# --------------------------------------------------------------------------- streams

def split_cases(text):
    """split an output stream into {case_id: [lines]} by '#case <id>' marker lines"""
    cases = {}
    cur = None
    for ln in text.split("\n"):
        if ln.startswith("#case"):
            cur = ln.split()[1] if len(ln.split()) > 1 else ""
            cases[cur] = []
        elif cur is not None and ln != "":
            cases[cur].append(ln)
    return cases


def run_side(binary, args, inp, timeout):
    env = dict(os.environ, GOMEMLIMIT="4GiB", GOTRACEBACK="single", CRNG_RELAY_BIN=RELAY)
    rc, so, se = run([binary] + args, inp=inp.encode(), timeout=timeout, env=env)
    return rc, so, se


class Ctx:
    def __init__(self, pid, tier, seed):
        self.pid = pid
        self.tier = tier
        self.seed = seed
        self.t0 = time.time()
        self.obligations = []       # dicts {name, kind, ok, detail}
        self.streams = []           # dicts of statistics
        self.samples = []
        self.problems = []          # dicts {kind, stream/obligation, case, detail, witness(bool)}
        self.notes = []
        self.evaluations = 0
        self.nontrivial = set()
        self.histograms = {}
        self.known = load_known().get(pid, [])
        self.known_hit = []
        self.lean_ok = True
        self.assumptions = []

    # ---- rng
    def rng(self, name):
        return random.Random((self.seed * 1000003 + zlib.crc32(name.encode())) & 0xFFFFFFFFFFFF)

    def scale(self, quick, thorough):
        return thorough if self.tier == "thorough" else quick

    # ---- obligations
    def oblige(self, name, kind, ok, detail=""):
        self.obligations.append({"name": name, "kind": kind, "ok": bool(ok), "detail": detail[-1500:] if detail else ""})
        if not ok:
            log("  OBLIGATION FAILED [%s] %s: %s" % (kind, name, (detail or "")[-600:]))

    def prepare(self):
        """regenerate facts + build harness (under the global lock); failures are obligations"""
        with Lock():
            ok, msg = regen_facts()
            self.oblige("extract:/repo -> Crng/Gen", "tie-A", ok, msg)
            okh, msgh = build_harness()
            self.oblige("harness builds against /repo (-tags verif)", "tie-B", okh, msgh)
            okd, failing, text = lake_build(["driver"])
            self.oblige("Lean driver (executable model) builds", "tie-B", okd, "\n".join("%s:%d: %s" % f for f in failing[:8]) or text[-800:])
        return ok and okh and okd

    def lean(self, modules, theorems, ties=()):
        """kernel-check `modules` (property theorems) and the regenerated obligations `ties`
        (one module each, so that a failing one names itself); audit axioms of `theorems`"""
        with Lock():
            ok, failing, text = lake_build(list(modules))
            if ok:
                for m in modules:
                    self.oblige("lake build " + m, "theorem-module", True)
            else:
                self.lean_ok = False
                self.oblige("lake build " + " ".join(modules), "theorem-module", False,
                            "\n".join("%s:%d: %s" % f for f in failing[:8]) or text[-1500:])
            for t in ties:
                tths = []
                if isinstance(t, tuple):
                    t, tths = t[0], [t[0] + "." + x for x in t[1]]
                okt, failing, text = lake_build([t])
                if not okt:
                    self.lean_ok = False
                self.oblige("regenerated obligation " + t, "tie-A", okt,
                            "\n".join("%s:%d: %s" % f for f in failing[:8]) or text[-1500:])
                if okt and tths:
                    # theorems about the code regenerated from /repo on this run: audited like the property theorems
                    ax, atext = print_axioms([t], tths)
                    for th in tths:
                        a = ax.get(th)
                        good = a is not None and a <= ALLOWED_AXIOMS
                        if not good:
                            self.lean_ok = False
                        self.oblige("theorem (regenerated code) %s  [axioms: %s]" % (th, "missing" if a is None else ", ".join(sorted(a)) or "none"),
                                    "tie-A", good, "" if good else atext[-800:])
            hits = grep_forbidden()
            self.oblige("no sorry/admit/axiom/native_decide/bv_decide/implemented_by/unsafe/maxHeartbeats 0", "audit", not hits, "\n".join(hits[:10]))
            if ok and theorems:
                ax, text = print_axioms(modules, theorems)
                for t in theorems:
                    a = ax.get(t)
                    good = a is not None and a <= ALLOWED_AXIOMS
                    if not good:
                        self.lean_ok = False
                    self.oblige("theorem %s  [axioms: %s]" % (t, "missing" if a is None else ", ".join(sorted(a)) or "none"),
                                "theorem", good, "" if good else text[-800:])
            elif theorems:
                for t in theorems:
                    self.oblige("theorem " + t, "theorem", False, "module did not build")
        return self.lean_ok

    # ---- correspondence
    def stream(self, name, sub, cases, harness_args=(), driver_args=None, driver_sub=None,
               monitor=None, canon=None, timeout=600, nontrivial=None, classify=None, model=True, shrink=True, spec_exact=False, removable=None,
               confirm=0):
        """cases: list of (case_id:str, [lines]). Runs the real code (harness `sub`) and, when
        model=True, the Lean model (driver `driver_sub` or `sub`) on the same input and compares per case.
        monitor(case_lines, real_out_lines) -> None | str is a model-free oracle for the property.
        spec_exact=True declares that the compared outputs are exactly the observables the property theorems fix
        (e.g. which routes received a line): a disagreement on such a stream is then a failing input for the
        property itself (expected = what the proved model requires), not merely a broken correspondence.
        nontrivial(case_lines, real_out_lines) -> hashable key | None counts distinct non-trivial cases.
        classify(case_lines, real_out_lines) -> str feeds the outcome histogram.
        confirm=N (streams whose real side depends on wall-clock time: client timeouts, sleeps): a case that disagrees with the model
        is run again on its own, up to N times, and counts only if the disagreement shows again at least once. On a loaded machine
        a request can exceed its client timeout by itself; that is a fault the environment is allowed to inject, not a failing
        input, and it does not repeat in isolation. Reported in the stream's statistics as `unconfirmed`."""
        t0 = time.time()
        inp = "".join("#case %s\n%s\n" % (cid, "\n".join(lines)) for cid, lines in cases)
        rc_g, so_g, se_g = run_side(HARNESS, [sub] + list(harness_args), inp, timeout)
        real = split_cases(so_g)
        stat = {"stream": name, "cases": len(cases), "diffs": 0, "monitor_failures": 0, "crashed": rc_g != 0}
        modelout = {}
        if model:
            rc_l, so_l, se_l = run_side(DRIVER, [driver_sub or sub] + list(driver_args if driver_args is not None else harness_args), inp, timeout)
            modelout = split_cases(so_l)
            if rc_l != 0:
                self.problem("correspondence", name, None, "Lean driver exited %d: %s" % (rc_l, se_l[-400:]), False)
        hist = self.histograms.setdefault(name, {})
        firstdiff = None
        for cid, lines in cases:
            self.evaluations += 1
            r = real.get(cid)
            if r is None:
                # harness died before / in this case
                if firstdiff is None:
                    firstdiff = (cid, lines, None, modelout.get(cid), "real code crashed or hung (exit %d): %s" % (rc_g, se_g[-600:]))
                stat["diffs"] += 1
                continue
            rc_ = canon(r) if canon else r
            if classify:
                k = classify(lines, r)
                hist[k] = hist.get(k, 0) + 1
            if nontrivial:
                k = nontrivial(lines, r)
                if k is not None:
                    self.nontrivial.add((name, k))
            else:
                self.nontrivial.add((name, hashlib.md5("\n".join(r).encode()).hexdigest()))
            if monitor:
                try:
                    err = monitor(lines, r)
                except Exception as e:  # truncated / unparsable real output is itself a finding
                    err = "monitor could not interpret the real output (%s: %s); output tail: %r" % (type(e).__name__, e, r[-3:])
                if err:
                    stat["monitor_failures"] += 1
                    if stat["monitor_failures"] <= 3:
                        wl = self.shrink_case(sub, harness_args, lines, lambda ls, ro: monitor(ls, ro) is not None, timeout, removable=removable) if shrink else lines
                        self.problem("property-monitor", name, wl, err, True)
            if model:
                m = modelout.get(cid)
                mc = canon(m) if (canon and m is not None) else m
                if mc != rc_:
                    if confirm and m is not None:
                        again = False
                        for _ in range(confirm):
                            rc2, so2, _se2 = run_side(HARNESS, [sub] + list(harness_args), "#case s\n" + "\n".join(lines) + "\n", min(timeout, 120))
                            r2 = split_cases(so2).get("s")
                            if r2 is None or (canon(r2) if canon else r2) != mc:
                                again = True
                                r = r2 if r2 is not None else r
                                break
                        if not again:
                            stat["unconfirmed"] = stat.get("unconfirmed", 0) + 1
                            continue
                    stat["diffs"] += 1
                    if firstdiff is None:
                        firstdiff = (cid, lines, r, m, None)
        if firstdiff is not None:
            cid, lines, r, m, why = firstdiff
            d = why or first_difference(canon(r) if canon else r, (canon(m) if canon and m is not None else m))
            if spec_exact and r is not None and m is not None and shrink:
                def differs(ls, ro):
                    rc2, so2, _ = run_side(DRIVER, [driver_sub or sub] + list(driver_args if driver_args is not None else harness_args), "#case s\n" + "\n".join(ls) + "\n", 60)
                    mo = split_cases(so2).get("s")
                    return mo is not None and (canon(mo) if canon else mo) != (canon(ro) if canon else ro)
                lines = self.shrink_case(sub, harness_args, lines, differs, timeout, removable=removable)
            # on a spec-exact stream a disagreement is a failing input; so is an input on which the real code dies or hangs
            self.problem("correspondence", name, lines, "case %s: %s" % (cid, d), bool(spec_exact) or why is not None, real=r, model=m)
        if len(self.samples) < 6 and cases:
            cid, lines = cases[min(len(cases) - 1, 1)]
            self.samples.append({"stream": name, "input": lines[:12], "real_output": (real.get(cid) or [])[:8]})
        stat["wall_s"] = round(time.time() - t0, 2)
        self.streams.append(stat)
        okc = stat["diffs"] == 0 and not stat["crashed"]
        if model:
            self.oblige("correspondence stream %s (%d cases)" % (name, len(cases)), "tie-B", okc,
                        "" if okc else "%d differing cases" % stat["diffs"])
        elif not okc:
            self.oblige("harness stream %s ran to completion" % name, "tie-B", False, se_g[-600:])
        if monitor:
            self.oblige("property monitor on %s" % name, "monitor", stat["monitor_failures"] == 0,
                        "%d cases violate the property on the real code" % stat["monitor_failures"])
        log("  stream %-28s cases=%-6d diffs=%d monitor_fail=%d %.1fs" % (name, len(cases), stat["diffs"], stat["monitor_failures"], stat["wall_s"]))
        return real, modelout

    def shrink_case(self, sub, harness_args, lines, bad, timeout, budget=40, removable=None):
        """greedy delta-debugging on the lines of one case against the real code; keeps line 0 (cfg) and every
        line for which removable(line) is False; a candidate on which the harness dies is never accepted"""
        cur = list(lines)
        removable = removable or (lambda l: True)
        n = 2
        tries = 0
        while len(cur) > 2 and tries < budget:
            chunk = max(1, len(cur) // n)
            reduced = False
            i = 1
            while i < len(cur) and tries < budget:
                if not all(removable(l) for l in cur[i:i + chunk]):
                    i += 1 if chunk == 1 else chunk
                    if chunk > 1 and i >= len(cur):
                        break
                    continue
                cand = cur[:i] + cur[i + chunk:]
                tries += 1
                rc, so, se = run_side(HARNESS, [sub] + list(harness_args), "#case s\n" + "\n".join(cand) + "\n", min(timeout, 20))
                if rc == -9:
                    return cur  # the real code hangs on a candidate: stop shrinking, every further attempt would cost a timeout
                ro = split_cases(so).get("s")
                try:
                    isbad = rc == 0 and ro is not None and bad(cand, ro)
                except Exception:
                    isbad = False
                if isbad:
                    cur = cand
                    reduced = True
                else:
                    i += chunk
            if not reduced:
                if chunk == 1:
                    break
                n = min(len(cur), n * 2)
        return cur

    def problem(self, kind, where, case, detail, witness, real=None, model=None):
        p = {"kind": kind, "where": where, "case": case, "detail": detail, "witness": witness}
        if real is not None:
            p["real_output"] = real[:200]
        if model is not None:
            p["model_output"] = model[:200]
        # known findings are matched on (kind/where/detail) by a regex given in known_findings.json
        for k in self.known:
            if k.get("status") == "open" and re.search(k["match"], "%s %s %s %s" % (kind, where, detail, json.dumps(case))):
                if k["id"] not in [x["id"] for x in self.known_hit]:
                    self.known_hit.append(k)
                return
        self.problems.append(p)
        log("  PROBLEM [%s] %s: %s" % (kind, where, str(detail)[:500]))

    def hist(self, name, key, n=1):
        h = self.histograms.setdefault(name, {})
        h[key] = h.get(key, 0) + n

    # ---- verdict
    def finish(self, level_text=""):
        failed_obl = [o for o in self.obligations if not o["ok"]]
        witnesses = [p for p in self.problems if p["witness"]]
        violation = bool(failed_obl or self.problems)
        replay = None
        if violation:
            os.makedirs(os.path.join(VERIF, "replays"), exist_ok=True)
            replay = os.path.join(VERIF, "replays", "%s-%s-seed%d.json" % (self.pid, self.tier, self.seed))
            w = witnesses[0] if witnesses else None
            body = {
                "property": self.pid, "tier": self.tier, "seed": self.seed,
                "kind": "input" if w else "obligation",
                "failing_input_found": bool(w),
                "witness": w,
                "failed_obligations": failed_obl,
                "other_problems": [p for p in self.problems if p is not w][:10],
                "replay_cmd": "./check %s --replay %s" % (self.pid, os.path.relpath(replay, VERIF)),
            }
            with open(replay, "w") as f:
                json.dump(body, f, indent=1)
        wall = round(time.time() - self.t0, 2)
        n_obl = len(self.obligations)
        n_ok = n_obl - len(failed_obl)
        ev = {
            "property_id": self.pid, "tier": self.tier, "seed": self.seed, "level": "proof",
            "coverage": {
                "obligations": n_obl, "discharged": n_ok,
                "checker_cmd": "cd /verif/lean && lake build <Props/Tie modules> && lake env lean <#print axioms audit>  (driven by ./check %s --tier %s)" % (self.pid, self.tier),
                "trusted_base": TRUSTED_BASE,
                "obligation_list": [{"name": o["name"], "kind": o["kind"], "ok": o["ok"]} for o in self.obligations],
                "evaluations": self.evaluations,
                "distinct_nontrivial": len(self.nontrivial),
                "rule": "correspondence cases generated from one PRNG seeded by VERIF_SEED (per-stream split); a case is non-trivial when the real code produced an output that is not the trivial/empty one for that stream, distinct = different real output (hash) or the stream's own key",
                "samples": self.samples or [{"note": "no correspondence stream in this run"}],
                "streams": self.streams,
                "histograms": self.histograms,
                "explanation": level_text,
                "known_findings_seen": [k["id"] for k in self.known_hit],
                "notes": self.notes,
            },
            "assumptions": self.assumptions,
            "wall_s": wall,
            "violations": len(self.problems) + len(failed_obl),
        }
        write_evidence(self.pid, ev)
        for k in self.known_hit:
            print("KNOWN-FINDING: property=%s %s" % (self.pid, k["what"]))
        if violation:
            tail = "" if witnesses else " no-failing-input-found"
            print("VIOLATION property=%s replay=%s%s" % (self.pid, replay, tail))
            sys.stdout.flush()
            return 1
        print("OK property=%s tier=%s seed=%d obligations=%d/%d cases=%d distinct_nontrivial=%d wall=%.1fs" % (
            self.pid, self.tier, self.seed, n_ok, n_obl, self.evaluations, len(self.nontrivial), wall))
        sys.stdout.flush()
        return 0


def clip_evidence(x, maxstr):
    """Evidence is a description of the run, not an archive: a case whose input or output is megabytes long
    (the stall/flush streams send tens of thousands of lines through one connection) is written out as its
    head, its length and a digest of the whole string; the replay file of a violation keeps the full case."""
    if isinstance(x, str):
        if len(x) <= maxstr:
            return x
        return "%s...[clipped: %d chars in all, sha256=%s]" % (
            x[:maxstr], len(x), hashlib.sha256(x.encode("utf-8", "replace")).hexdigest()[:16])
    if isinstance(x, list):
        return [clip_evidence(i, maxstr) for i in x]
    if isinstance(x, tuple):
        return [clip_evidence(i, maxstr) for i in x]
    if isinstance(x, dict):
        return {k: clip_evidence(v, maxstr) for k, v in x.items()}
    return x


EVIDENCE_MAX_BYTES = 200000


def write_evidence(pid, ev):
    """Write evidence/<pid>.json: every string bounded, the whole file bounded, and the file replaced atomically
    (written next to its final place, flushed, renamed) so that a reader never sees half a record."""
    body = None
    for maxstr in (1500, 600, 240, 96):
        body = json.dumps(clip_evidence(ev, maxstr), indent=1)
        if len(body.encode("utf-8")) <= EVIDENCE_MAX_BYTES:
            break
    json.loads(body)
    d = os.path.join(VERIF, "evidence")
    os.makedirs(d, exist_ok=True)
    tmp = os.path.join(d, ".%s.json.tmp%d" % (pid, os.getpid()))
    with open(tmp, "w") as f:
        f.write(body)
        f.write("\n")
        f.flush()
        os.fsync(f.fileno())
    os.replace(tmp, os.path.join(d, pid + ".json"))


def first_difference(a, b):
    if a is None:
        return "real code produced no output for this case"
    if b is None:
        return "model produced no output for this case"
    for i, (x, y) in enumerate(zip(a, b)):
        if x != y:
            return "line %d: real=%r model=%r" % (i, x[:300], y[:300])
    return "length: real=%d lines, model=%d lines; extra=%r" % (len(a), len(b), (a[len(b):] or b[len(a):])[:2])


def load_known():
    """known_findings.json: {"findings": [{id, property, status: open|fixed, match: regex, what, commit?}]}"""
    try:
        d = json.load(open(os.path.join(VERIF, "known_findings.json")))
    except OSError:
        return {}
    res = {}
    for k in d.get("findings", []):
        res.setdefault(k["property"], []).append(k)
    return res


def hexb(b):
    return b.hex() if b else "-"
