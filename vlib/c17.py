"""C17 — grafana.net route: retry until acknowledged, series order kept, shutdown drains"""
from . import tablegen as tg, gen

LEVEL_TEXT = ("Lean theorems Crng.Props.C17.retry_never_skips, acked_prefix, flush_acks, shutdown_drains, shutdown_returns, old_shutdown_hangs over "
              "a model of one worker (run/retryFlush over any outcome stream) and the shutdown protocol. Regenerated obligations: retry loop leaves "
              "only on success and resends the same body; only 2xx acknowledges; worker select shape (Done deferred, shutdown drains then flushes); "
              "Shutdown = close + Wait; sharding = FNV-1a 32 of the name modulo concurrency; the two dispatch modes. Correspondence: the real route "
              "against a scripted HTTP endpoint (2xx / 4xx / 5xx / hang until timeout / reset / error status with a broken body) with decoded "
              "POST bodies: exact against the worker model in the deterministic configuration (concurrency 1, no timer), monitor-only for "
              "concurrent configurations (every accepted metric acknowledged at least once, per-series order, drop accounting, shutdown).")

OUTCOMES = ["ok", "ok", "ok", "500", "400", "reset", "hang", "502short"]


def mline(rnd, series, t):
    return "%s %s %d" % (series, rnd.choice(["1", "2.5", "42"]), t)


def exact_cases(rnd, n):
    out = []
    for i in range(n):
        maxnum = rnd.choice([1, 2, 3, 5])
        ops = ["cfg 1 1000 %d 100000 1 150" % maxnum]
        if rnd.random() < 0.8:
            ops.append("script " + ",".join(rnd.choice(OUTCOMES) for _ in range(rnd.randint(1, 8))))
        series = ["s.%s" % gen.name(rnd, 2) for _ in range(3)]
        t = 1500000000
        nm = rnd.randint(0, 14)
        for _ in range(nm):
            t += 10
            k = rnd.random()
            if k < 0.85:
                ops.append("m " + tg.hx(mline(rnd, rnd.choice(series), t)))
            elif k < 0.9:
                ops.append("m " + tg.hx("nospace"))
            elif k < 0.95:
                ops.append("m " + tg.hx("%s 1 notatime" % rnd.choice(series)))
            else:
                ops.append("m " + tg.hx("%s;badtag 1 %d" % (rnd.choice(series), t)))
        ops += ["shutdown", "end"]
        out.append(("x%d" % i, ops))
    return out


def conc_cases(rnd, n, blocking):
    out = []
    for i in range(n):
        conc = rnd.choice([2, 3, 4, 8])
        maxnum = rnd.choice([1, 2, 5, 50])
        wait = rnd.choice([2, 5, 20])
        bufsize = rnd.choice([1000, 64]) if blocking else rnd.choice([0, 2, 8, 1000])
        ops = ["cfg %d %d %d %d %d 120" % (conc, bufsize, maxnum, wait, 1 if blocking else 0)]
        sc = ",".join(rnd.choice(OUTCOMES) for _ in range(rnd.randint(0, 10)))
        if sc:
            ops.append("script " + sc)
        series = ["c.%s.%d" % (gen.name(rnd, 2), k) for k in range(rnd.randint(1, 6))]
        t = 1500000000
        for _ in range(rnd.randint(1, 60)):
            t += 10
            ops.append("m " + tg.hx(mline(rnd, rnd.choice(series), t)))
            if rnd.random() < 0.08:
                ops.append("sleep %d" % rnd.choice([1, 3, 10]))
        if rnd.random() < 0.5:
            ops.append("sleep %d" % rnd.choice([5, 30]))
        ops += ["shutdown", "end"]
        out.append(("%s%d" % ("b" if blocking else "n", i), ops))
    return out


def parked_cases(rnd, n):
    """blocking mode, a tiny buffer, an endpoint that is down while several callers pile up behind the full buffer, then
    Shutdown(): everything whose Dispatch returned has to be acknowledged (the drain has to take the parked callers' lines too)"""
    out = []
    for i in range(n):
        bufsize = rnd.choice([1, 2, 3])
        maxnum = rnd.choice([1, 2, 3])
        ops = ["cfg 1 %d %d 5 1 120" % (bufsize, maxnum)]
        ops.append("script " + ",".join(rnd.choice(["hang", "500", "reset"]) for _ in range(rnd.randint(2, 4))))
        series = ["p.%s.%d" % (gen.name(rnd, 2), k) for k in range(rnd.randint(1, 3))]
        t = 1500000000
        for _ in range(rnd.randint(bufsize + maxnum + 2, bufsize + maxnum + 9)):
            t += 10
            ops.append("mbg " + tg.hx(mline(rnd, rnd.choice(series), t)))
        ops += ["sleep 300", "shutdown", "end"]
        out.append(("k%d" % i, ops))
    return out


def monitor(lines, out):
    blocking = lines[0].split()[5] == "1"
    sent = []
    returned = {}
    for o in out:
        if o.startswith("bg "):
            returned[o.split()[1]] = o.split()[2] == "1"
    for l in lines:
        f = l.split()
        if f[0] == "mbg" and not returned.get(f[1], False):
            continue      # still parked when the route was shut down: never accepted
        if f[0] in ("m", "mbg"):
            b = bytes.fromhex(f[1]).strip()
            toks = b.split()
            if b" " in b and len(toks) == 3 and toks[2].isdigit() and b";badtag" not in toks[0]:
                sent.append((toks[0].decode(), int(toks[2])))
    acked = []
    drops = None
    for o in out:
        if o == "dispatch-blocked":
            return "Dispatch did not return within 3 s" + ("" if blocking else " in non-blocking mode")
        if o == "shutdown hang":
            return "Shutdown() did not return"
        if o.startswith("post "):
            for m in o.split(" ", 1)[1].split(","):
                if m == "UNDECODABLE":
                    return "a POST body could not be decoded"
                name, t, iv = m.split("|")
                acked.append((name, int(t)))
        if o.startswith("drops "):
            drops = int(o.split()[1])
    if drops is None:
        return "no result"
    if blocking and drops:
        return "blocking mode dropped %d metrics" % drops
    missing = [m for m in sent if m not in set(acked)]
    if len(missing) != drops:
        return "%d accepted metrics were never acknowledged (e.g. %r) but %d drops were counted: a batch was skipped or a drop not counted" % (len(missing), missing[:3], drops)
    if set(acked) - set(sent):
        return "acknowledged metrics that were never dispatched: %r" % list(set(acked) - set(sent))[:3]
    # per series: acknowledged in the order received. Points handed over by concurrent callers (`mbg`: one goroutine each, as
    # separate input connections would) have no receive order among themselves: which of two parked callers gets into the buffer
    # first is the scheduler's choice, so the order is only required of the points dispatched one after the other (`m`)
    concurrent = set()
    for l in lines:
        f = l.split()
        if f[0] == "mbg":
            toks = bytes.fromhex(f[1]).strip().split()
            if len(toks) == 3 and toks[2].isdigit():
                concurrent.add((toks[0].decode(), int(toks[2])))
    last = {}
    for name, t in acked:
        if (name, t) in concurrent:
            continue
        if t < last.get(name, 0):
            return "series %s: point %d acknowledged after point %d (order not kept)" % (name, t, last[name])
        last[name] = max(last.get(name, 0), t)
    return None


def run(ctx):
    ctx.assumptions += ["every sequence of failures is followed by a success (finitely many failures per batch)", "net/http, snappy and msgp encoding are external (bodies are decoded by the harness with the same libraries)",
                        "schedules of the concurrent configurations are sampled, not enumerated; the theorems cover every event order of one worker"]
    ctx.prepare()
    ctx.lean(["Crng.Props.C17"], ["Crng.Props.C17.retry_never_skips", "Crng.Props.C17.acked_prefix", "Crng.Props.C17.flush_acks", "Crng.Props.C17.shutdown_drains",
                                  "Crng.Props.C17.shutdown_returns", "Crng.Props.C17.old_shutdown_hangs"],
             ties=["Crng.Tie.C17"])
    ctx.stream("worker-exact", "gnet", exact_cases(ctx.rng("gx"), ctx.scale(40, 600)), monitor=monitor, spec_exact=True, shrink=False, timeout=ctx.scale(300, 3000), confirm=2,
               classify=lambda l, o: "posts=%d" % sum(1 for x in o if x.startswith("post")))
    ctx.stream("route-blocking", "gnet", conc_cases(ctx.rng("gb"), ctx.scale(20, 300), True), model=False, monitor=monitor, shrink=False, timeout=ctx.scale(300, 3000),
               nontrivial=lambda l, o: tuple(o))
    ctx.stream("route-parked-shutdown", "gnet", parked_cases(ctx.rng("gk"), ctx.scale(12, 150)), model=False, monitor=monitor, shrink=False, timeout=ctx.scale(300, 3000),
               nontrivial=lambda l, o: tuple(o), classify=lambda l, o: "parked-left" if any(x.startswith("bg ") and x.endswith(" 0") for x in o) else "all-returned")
    ctx.stream("route-nonblocking", "gnet", conc_cases(ctx.rng("gn"), ctx.scale(20, 300), False), model=False, monitor=monitor, shrink=False, timeout=ctx.scale(300, 3000),
               nontrivial=lambda l, o: tuple(o), classify=lambda l, o: "drops" if any(x.startswith("drops") and x != "drops 0" for x in o) else "nodrops")
