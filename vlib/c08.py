"""C08 — the disk spool queue recovers consistently from a crash at any point"""
from . import dqgen

LEVEL_TEXT = ("Lean theorem Crng.Props.C08.crash_recovery: for every history and every crash point (each filesystem mutation "
              "of the I/O loop) reopening the crashed directory terminates and delivers a contiguous run of the enqueued messages "
              "that skips nothing undelivered and reaches the last synced write. Tie: at every verifCrashPoint hook of the real "
              "code the directory bytes and the recovered message list are compared with the model's; a model-free monitor checks "
              "the property statement itself on the real recoveries.")


def run(ctx):
    ctx.assumptions += ["crash model = process death between two filesystem operations: completed writes/renames/removes survive, nothing is torn (power loss is outside the property)",
                        "filesystem calls succeed until the crash", "single crash (no second crash during recovery)"]
    ctx.prepare()
    ctx.lean(["Crng.Props.C08"], ["Crng.Props.C08.crash_recovery", "Crng.Props.C08.crash_recovery_history"])
    rnd = ctx.rng("c08")
    cases = dqgen.gen_cases(rnd, ctx.scale(90, 1500), ctx.scale(26, 40), "h")
    cases += dqgen.gen_cases(rnd, ctx.scale(30, 500), 20, "big", maxbs=(1, 4, 7, 10), ses=(1, 2, 5), sizes=(0, 2, 3, 4, 6, 7, 11, 25), reopen_p=0.12)
    stats = {}
    ctx.stream("dq-crash", "dq", cases, monitor=lambda l, o: dqgen.crash_monitor(l, o, stats),
               classify=lambda l, o: "crashpoints=%s" % ("0-9" if sum(1 for x in o if x.startswith("crash")) < 10 else "10-49" if sum(1 for x in o if x.startswith("crash")) < 50 else "50+"),
               nontrivial=lambda lines, out: tuple(x for x in out if x.startswith("rec ") and not x.startswith("rec 0")) or None,
               timeout=ctx.scale(900, 6000))
    ctx.histograms["crash-labels"] = stats
    ctx.notes.append("crash snapshots checked: %d" % sum(stats.values()))
