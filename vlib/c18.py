"""C18 — runtime table changes are atomic with respect to traffic"""
import json
import os
from . import common
from . import tablegen as tg

LEVEL_TEXT = ("Lean theorems Crng.Props.C18.isolation (every history of safe update idioms, every append capacity behaviour: a held snapshot keeps "
              "its view) and ops_refine_list (published list = fold of the list operations) over a model of Go slices on shared backing arrays. "
              "Regenerated obligations (Crng.Tie.C18): every mutator's slice idiom is safe; mutators lock first / defer unlock / Load..Store; "
              "Dispatch and DispatchAggregate Load once and take no lock; index and key guards. Correspondence: admin-op histories on a real "
              "table and route; the slice headers a dispatcher would hold (read out of the atomic.Value by reflection) are re-read after later "
              "operations and compared with the model running the idioms the extractor found; model-free monitor: a held snapshot never changes.")

KEYS = ["table.Table.AddBlacklist", "table.Table.DelBlacklist", "table.Table.AddRewriter", "table.Table.DelRewriter", "table.Table.AddRoute",
        "table.Table.DelRoute", "route.baseRoute.addDestination", "route.baseRoute.delDestination"]


def idioms():
    rows = json.load(open(os.path.join(common.BUILD, "tableops.json")))
    d = {r[0]: r[2] for r in rows}
    return [d.get(k, "other") for k in KEYS]


def cases(rnd, n, maxops):
    ids = idioms()
    out = []
    for i in range(n):
        ops = ["idioms " + " ".join(ids), "new"]
        cnt = {"bl": 0, "rw": 0, "route": 0, "dest": 0}
        live = {"bl": 0, "rw": 0, "dest": 0}
        routes = []
        for _ in range(rnd.randint(3, maxops)):
            r = rnd.random()
            kind = rnd.choice(["bl", "rw", "route", "dest"])
            if r < 0.5:
                cnt[kind] += 1
                name = "%s%d" % (kind[0], cnt[kind])
                ops.append("add%s %s" % (kind, name))
                if kind == "route":
                    routes.append(name)
                else:
                    live[kind] += 1
            elif r < 0.8:
                if kind == "route":
                    key = rnd.choice(routes + ["nosuch"]) if routes else "nosuch"
                    ops.append("delroute %s" % key)
                    if key in routes:
                        routes.remove(key)
                else:
                    idx = rnd.choice([0, 0, live[kind] - 1, live[kind], rnd.randint(0, max(0, live[kind]))]) if live[kind] else rnd.choice([0, 1])
                    idx = max(0, idx)
                    ops.append("del%s %d" % (kind, idx))
                    if idx < live[kind]:
                        live[kind] -= 1
            elif r < 0.93:
                ops.append("snap")
            else:
                ops.append("views")
        ops.append("views")
        out.append(("h%d" % i, ops))
    return out


def monitor(lines, out):
    """model-free: whatever a held snapshot showed the first time it was read after being taken, it shows forever; and the current
    view follows the list semantics of the operations"""
    cur = {"bl": [], "rw": [], "routes": [], "dests": []}
    snaps = []
    oi = 0

    def parse(o):
        d = {}
        for part in o.split()[1:]:
            k, v = part.split("=", 1)
            d[k] = [x for x in v.strip("[]").split(",") if x]
        return d
    for l in lines:
        f = l.split()
        if f[0] in ("idioms", "new"):
            continue
        if f[0] == "snap":
            snaps.append({k: list(v) for k, v in cur.items()})
            continue
        if f[0] == "views":
            got = parse(out[oi])
            oi += 1
            if got != cur:
                return "table view %r does not reflect the sequence of changes applied (expected %r)" % (got, cur)
            for i, s in enumerate(snaps):
                g = parse(out[oi])
                oi += 1
                if g != s:
                    return "a dispatcher holding the table as it was at snapshot %d (%r) now reads %r: entries skipped or visited twice" % (i, s, g)
            continue
        o = out[oi]
        oi += 1
        kind = {"bl": "bl", "rw": "rw", "route": "routes", "dest": "dests"}[f[0][3:]]
        if f[0].startswith("add"):
            cur[kind].append(f[1])
            if not o.endswith("ok"):
                return "%s failed" % l
        elif f[0] == "delroute":
            if f[1] in cur[kind]:
                cur[kind].remove(f[1])
            if not o.endswith("ok"):
                return "deleting route %s reported an error" % f[1]
        else:
            idx = int(f[1])
            if idx < len(cur[kind]):
                del cur[kind][idx]
                if not o.endswith("ok"):
                    return "%s on a list of %d entries was rejected" % (l, len(cur[kind]) + 1)
            elif not o.endswith("err"):
                return "%s beyond the end of the list (%d entries) was not rejected" % (l, len(cur[kind]))
    return None


ADM_POOL = ["addrw old. new.", "addrw new. old.", "addrw .x .z", "delrw 0", "delroute r1", "delroute r2", "delroute r3", "addroute r4 new.", "addroute r5 old.",
            "addroute r6 z", "addbl old.", "addbl new.", "addbl zzz", "delbl 0"]


def inflight_cases(rnd, n):
    """a Dispatch held in the middle of the pipeline while k admin operations change the table; the same line is also dispatched
    synchronously against every complete table T0..Tk of that history (each rebuilt from scratch)"""
    out = []
    for i in range(n):
        new = rnd.choice(["new", "new rw"])
        line = tg.hx(("%s 1 1500000000" % rnd.choice(["old.x", "old.y", "new.x", "new.q", "old.a.x"])).encode())
        ops = [rnd.choice(ADM_POOL) for _ in range(rnd.randint(2, 4))]
        case = []
        for k in range(len(ops) + 1):
            case.append(new)
            case += ["adm " + o for o in ops[:k]]
            case.append("probe " + line)
        case += [new, "fill", "ain " + line] + ["adm " + o for o in ops] + ["await"]
        out.append(("f%d" % i, case))
    return out


def inflight_monitor(lines, out):
    outs = [o for o in out if o.startswith("out ")]
    if "ain held" not in out:
        return "harness: the dispatch was not held (%s)" % [o for o in out if o.startswith(("ain", "newerr", "await"))]
    if "await stuck" in out:
        return "the held Dispatch never returned after the aggregator was let go"
    if len(outs) < 2:
        return "harness: no outcomes"
    held, complete = outs[-1], outs[:-1]
    if held not in complete:
        return "a metric in flight during %d table changes was processed against a table that never existed: it did '%s'; against the complete tables of the history it does %s" % (
            len(complete) - 1, held, sorted(set(complete)))
    return None


def ch_cases(rnd, n):
    out = []
    for i in range(n):
        ids = ["d%d" % j for j in range(rnd.randint(2, 5))]
        nxt = len(ids)
        ops = ["new " + ",".join(ids)]
        live = len(ids)
        for _ in range(rnd.randint(3, 12)):
            k = rnd.random()
            if k < 0.3:
                ops.append("snap")
            elif k < 0.6:
                ops.append("add d%d" % nxt)
                nxt += 1
                live += 1
            elif k < 0.9:
                ops.append("del %d" % rnd.randint(0, max(0, live)))
                # (the harness reports whether it was accepted; the monitor does not need to know)
            else:
                ops.append("views")
        ops.append("views")
        out.append(("h%d" % i, ops))
    return out


def ch_monitor(lines, out):
    """what a dispatcher sees through a config it holds (destinations, ring, choices) never changes after it was taken"""
    held = {}
    for o in out:
        f = o.split(" ", 1)
        if f[0].startswith("snap") and len(f) == 2:
            if f[0] not in held:
                held[f[0]] = f[1]
            elif held[f[0]] != f[1]:
                return "a consistentHashing config held by a dispatcher changed under it: %s was '%s', later reads '%s'" % (f[0], held[f[0]][:160], f[1][:160])
        if "!oob" in o:
            return "ring entry points outside the held destination list: " + o[:200]
    return None


def torn_monitor(lines, out):
    for l, o in zip(lines, out):
        if o.split()[1] != "false":
            return ("a destination's filter was replaced while a dispatcher evaluated it (%s): the name was accepted although the old "
                    "filter rejects it (notRegex) and the new filter rejects it (regex): it was tested against a filter that never existed" % l)
    return None


def delroute_cases(rnd, n):
    return [("dl%d" % i, ["run %d %d %d %d" % (k, rnd.randint(0, k - 1), rnd.choice([0, 20, 60, 100]), rnd.choice([1, 3, 10]))])
            for i in range(n) for k in [rnd.choice([1, 2, 3, 5])]]


def delroute_monitor(lines, out):
    f = lines[0].split()
    nl = int(f[4])
    g = out[0].split()
    late = int(g[1])
    if late:
        return ("a route that is being deleted was handed %d metrics after its shutdown had begun: the metric was processed against a table "
                "that existed neither before nor after the change" % late)
    for x in g[3:]:
        if int(x) != nl:
            return "a route that exists before and after the deletion received %s of %d metrics" % (x, nl)
    return None


def run(ctx):
    ctx.assumptions += ["schedules = interleavings of element reads through a held header with whole mutators (mutators are serialised by the mutex: regenerated fact)",
                        "aggregator list uses the same idioms (regenerated fact) but is not driven in the correspondence run (aggregator shutdown is asynchronous)",
                        "a dispatcher that holds the old table and sends to a destination whose relay loop has exited after DelRoute/DelDestination blocks: outside this model, see DESIGN known findings"]
    ctx.prepare()
    ctx.lean(["Crng.Props.C18"], ["Crng.Props.C18.isolation", "Crng.Props.C18.ops_refine_list", "Crng.Props.C18.deleteInPlace_breaks"],
             ties=["Crng.Tie.C18", common.CODE_TABLEOPS])
    ctx.stream("table-ops", "tableops", cases(ctx.rng("c18"), ctx.scale(400, 8000), ctx.scale(30, 60)), monitor=monitor, spec_exact=True,
               removable=lambda l: not l.startswith(("idioms", "new", "views")),
               classify=lambda l, o: "snaps=%d" % sum(1 for x in l if x == "snap"))
    # "the table view reflects exactly the sequence of changes applied", observed through traffic: real table changed at run time
    # (add/del rewriter and blacklist entry by index incl. beyond the end, modRoute, modDest) vs the model list operations
    from .c01 import classify as _cl, nontrivial as _nt
    ctx.stream("table-history", "table", tg.history_cases(ctx.rng("c18h"), ctx.scale(60, 1200), nbl=(1, 3), nrw=(1, 3)), classify=_cl, nontrivial=_nt,
               spec_exact=True, timeout=ctx.scale(600, 3000), removable=tg.HISTORY_REMOVABLE)
    ctx.stream("filter-torn", "match", [("tn0", ["torn %d %d" % (rnd_len, d) for rnd_len in (4000000,) for d in ctx.rng("c18t").sample([1, 3, 5, 10, 20, 30, 40, 55], ctx.scale(5, 8))])],
               model=False, monitor=torn_monitor, shrink=False, timeout=120)
    ctx.stream("delroute-live", "delroute", delroute_cases(ctx.rng("c18dl"), ctx.scale(8, 100)), model=False, monitor=delroute_monitor, shrink=False,
               timeout=ctx.scale(120, 900), classify=lambda l, o: "delay=" + l[0].split()[3])
    ctx.stream("hashing-route-ops", "chops", ch_cases(ctx.rng("c18ch"), ctx.scale(60, 1200)), model=False, monitor=ch_monitor, shrink=True,
               removable=lambda l: not l.startswith(("new", "views")),
               classify=lambda l, o: "snaps=%d" % sum(1 for x in l if x == "snap"))
    ctx.stream("in-flight", "midflight", inflight_cases(ctx.rng("c18f"), ctx.scale(40, 200)), model=False, monitor=inflight_monitor, shrink=False,
               timeout=ctx.scale(600, 3000), classify=lambda l, o: "changes=%d" % (sum(1 for x in l if x.startswith("probe ")) - 1))
