"""C11 — aggregation output bypasses the pipeline, cannot loop; drop-raw is exact"""
from . import tablegen as tg, gen
from .c01 import classify, nontrivial
from . import common

LEVEL_TEXT = ("Lean theorems Crng.Props.C11.aggregate_only_routes, aggregate_routes_exact, no_amplification, dropraw_exact, consumed_withheld, "
              "others_unaffected for every table. Regenerated obligations: Table.In -> DispatchAggregate only; DispatchAggregate = route loop; "
              "AddMaybe order; drop-raw return. Correspondence: tables with several aggregations (drop-raw, self-matching, chained by name) plus "
              "blacklist entries and rewriters that would match the aggregate names; every aggregator emission is fed back through Table.In as the "
              "relay does and its routing compared with the model.")


def cases(rnd, n):
    out = []
    for i in range(n):
        t = ["lvl none none 0"]
        # blacklist and rewriters aimed at the aggregate names
        for _ in range(rnd.randint(0, 2)):
            t.append(tg.mline("bl", rnd.choice([["agg.", "", "", "", "", ""], ["", "", "agg", "", "", ""], ["", "", "", "", "^agg\\.", ""],
                                                 ["", "", "", "", "\\.sum$", ""], tg.matcher(rnd, 0.3)])))
        for _ in range(rnd.randint(0, 2)):
            r = rnd.choice([["agg", "AGG", "", -1], ["/^agg\\./", "x.", "", -1], ["sum", "total", "", 1], tg.rewriter(rnd)])
            t.append("rw %s %s %s %d" % (tg.hx(r[0]), tg.hx(r[1]), tg.hx(r[2]), r[3]))
        for _ in range(rnd.randint(1, 4)):
            a = tg.aggregator(rnd, dropraw_p=0.5)
            k = rnd.random()
            if k < 0.25:      # self-matching: output name matches its own filter
                a[1], a[2] = "^(agg\\..*|foo.*)", "agg.$1"
            elif k < 0.4:     # chained: consumes what another rule emits
                a[1], a[2] = "^agg\\.(.*)", "agg2.$1"
            a[0] = rnd.choice(["sum", "count", "max", "min", "last", "avg"])
            t.append(tg.agg_line(a))
        for _ in range(rnd.randint(1, 3)):
            t.append("route cap %s" % " ".join(tg.hx(x) for x in rnd.choice([["", "", "", "", "", ""], ["agg", "", "", "", "", ""], tg.matcher(rnd, 0.3)])))
        t.append("build")
        ls = []
        for _ in range(25):
            if rnd.random() < 0.25:
                nm = rnd.choice(["agg.foo.bar", "agg.a", "foo.agg.x", "agg.agg.b"])
                # the harness clock stands at 100000: timestamps around it are late points (behind a rule's wait) or current ones
                ts = rnd.choice([1500000000, 1500000000, 50000, 99000, 99900, 99990, 100000, 100010])
                ls.append("in %s %d %d" % (tg.hx("%s 2 %d" % (nm, ts)), gen.fbits("2"), ts))
            elif rnd.random() < 0.15:
                line, bits, ts = tg.metric_line(rnd, invalid_p=0.0, ts=rnd.choice([50000, 99000, 99900, 99990, 100000]))
                ls.append("in %s %d %d" % (tg.hx(line), bits, ts))
            elif rnd.random() < 0.15:
                ls.append("aggin %s" % tg.hx("%s 1.000000 1500000000" % rnd.choice(["agg.foo.bar", "foo.sum", gen.name(rnd)])))
            else:
                line, bits, ts = tg.metric_line(rnd, invalid_p=0.03)
                ls.append("in %s %d %d" % (tg.hx(line), bits, ts))
        out.append(("g%d" % i, t + ls))
    return out


def run(ctx):
    ctx.assumptions += ["the wiring aggregator output -> Table.In is in cfg/imperatives (checked by the extractor fact on table.New and exercised by C20's harness)"]
    ctx.prepare()
    ctx.lean(["Crng.Props.C11"], ["Crng.Props.C11.aggregate_only_routes", "Crng.Props.C11.aggregate_routes_exact", "Crng.Props.C11.no_amplification",
                                  "Crng.Props.C11.dropraw_exact", "Crng.Props.C11.consumed_withheld", "Crng.Props.C11.others_unaffected"],
             ties=["Crng.Tie.C11", common.CODE_TABLE, common.CODE_AGG, common.CODE_COMPOSE])
    # the same pipeline while the running table is changed through its admin API between bursts of repeated traffic: real table
    # vs the model rebuilt from the resulting configuration (anything remembered from before a change shows as a difference)
    ctx.stream("table-history", "table", tg.history_cases(ctx.rng("c11h"), ctx.scale(60, 1200), nagg=(1, 3), nroutes=(2, 5)), classify=classify, nontrivial=nontrivial,
               spec_exact=True, timeout=ctx.scale(600, 3000), removable=tg.HISTORY_REMOVABLE)
    ctx.stream("table-aggregations", "table", cases(ctx.rng("c11"), ctx.scale(200, 4000)), classify=classify, nontrivial=nontrivial, spec_exact=True,
               removable=lambda l: l.startswith(("in ", "inm ", "aggin ")))
