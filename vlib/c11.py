"""C11 — aggregation output bypasses the pipeline, cannot loop; drop-raw is exact"""
from . import tablegen as tg, gen
from .c01 import classify, nontrivial
from . import common

LEVEL_TEXT = ("Lean theorems Crng.Props.C11.aggregate_only_routes, aggregate_routes_exact, no_amplification, dropraw_exact, consumed_withheld, "
              "others_unaffected for every table. Regenerated obligations: Table.In -> DispatchAggregate only; DispatchAggregate = route loop; "
              "AddMaybe order; drop-raw return. Correspondence: tables with several aggregations (drop-raw, self-matching, chained by name) plus "
              "blacklist entries and rewriters that would match the aggregate names; every aggregator emission is fed back through Table.In as the "
              "relay does and its routing compared with the model.")


def cases(rnd, n):
    out = []
    for i in range(n):
        t = ["lvl none none 0"]
        # blacklist and rewriters aimed at the aggregate names
        for _ in range(rnd.randint(0, 2)):
            t.append(tg.mline("bl", rnd.choice([["agg.", "", "", "", "", ""], ["", "", "agg", "", "", ""], ["", "", "", "", "^agg\\.", ""],
                                                 ["", "", "", "", "\\.sum$", ""], tg.matcher(rnd, 0.3)])))
        for _ in range(rnd.randint(0, 2)):
            r = rnd.choice([["agg", "AGG", "", -1], ["/^agg\\./", "x.", "", -1], ["sum", "total", "", 1], tg.rewriter(rnd)])
            t.append("rw %s %s %s %d" % (tg.hx(r[0]), tg.hx(r[1]), tg.hx(r[2]), r[3]))
        for _ in range(rnd.randint(1, 4)):
            a = tg.aggregator(rnd, dropraw_p=0.5)
            k = rnd.random()
            if k < 0.25:      # self-matching: output name matches its own filter
                a[1], a[2] = "^(agg\\..*|foo.*)", "agg.$1"
            elif k < 0.4:     # chained: consumes what another rule emits
                a[1], a[2] = "^agg\\.(.*)", "agg2.$1"
            a[0] = rnd.choice(["sum", "count", "max", "min", "last", "avg"])
            t.append(tg.agg_line(a))
        for _ in range(rnd.randint(1, 3)):
            t.append("route cap %s" % " ".join(tg.hx(x) for x in rnd.choice([["", "", "", "", "", ""], ["agg", "", "", "", "", ""], tg.matcher(rnd, 0.3)])))
        t.append("build")
        ls = []
        for _ in range(25):
            if rnd.random() < 0.25:
                nm = rnd.choice(["agg.foo.bar", "agg.a", "foo.agg.x", "agg.agg.b"])
                # the harness clock stands at 100000: timestamps around it are late points (behind a rule's wait) or current ones
                ts = rnd.choice([1500000000, 1500000000, 50000, 99000, 99900, 99990, 100000, 100010])
                ls.append("in %s %d %d" % (tg.hx("%s 2 %d" % (nm, ts)), gen.fbits("2"), ts))
            elif rnd.random() < 0.15:
                line, bits, ts = tg.metric_line(rnd, invalid_p=0.0, ts=rnd.choice([50000, 99000, 99900, 99990, 100000]))
                ls.append("in %s %d %d" % (tg.hx(line), bits, ts))
            elif rnd.random() < 0.15:
                ls.append("aggin %s" % tg.hx("%s 1.000000 1500000000" % rnd.choice(["agg.foo.bar", "foo.sum", gen.name(rnd)])))
            else:
                line, bits, ts = tg.metric_line(rnd, invalid_p=0.03)
                ls.append("in %s %d %d" % (tg.hx(line), bits, ts))
        out.append(("g%d" % i, t + ls))
    return out


def bp_cases(rnd, n):
    """an aggregation whose goroutine is stalled while its small input buffer fills (then released): drop-raw must stay exact
    and no point may be lost"""
    out = []
    for i in range(n):
        prefix = rnd.choice(["web.", "srv.db", "x"])
        lines = []
        for k in range(rnd.randint(6, 40)):
            nm = (prefix + "m%d" % rnd.randint(0, 3)) if rnd.random() < 0.6 else "other.m%d" % rnd.randint(0, 3)
            lines.append(tg.hx("%s %d 100005" % (nm, rnd.randint(1, 9))))
        out.append(("bp%d" % i, ["run %d %d %s %s" % (rnd.choice([0, 1, 2, 5]), rnd.choice([0, 1, 1]), tg.hx(prefix), " ".join(lines))]))
    return out


def bp_monitor(lines, out):
    f = lines[0].split()
    dropraw = f[2] == "1"
    prefix = bytes.fromhex(f[3])
    names = [bytes.fromhex(h).split()[0] for h in f[4:]]
    nmatch = sum(1 for x in names if x.startswith(prefix))
    if not out or out[0] == "hang":
        return "dispatch did not finish after the stalled aggregator was released"
    g = out[0].split()
    raw, rawmatch, agg = int(g[1]), int(g[3]), int(g[5])
    if agg != nmatch:
        return "%d points match the aggregation's filter, the emitted counts add up to %d (points lost or counted twice under backpressure)" % (nmatch, agg)
    if dropraw and rawmatch != 0:
        return "drop-raw: %d raw metrics that the aggregation consumes reached the route while the aggregator was busy" % rawmatch
    if dropraw and raw != len(names) - nmatch:
        return "drop-raw: %d other metrics were sent, the route received %d" % (len(names) - nmatch, raw)
    if not dropraw and (raw != len(names) or rawmatch != nmatch):
        return "without drop-raw the route must receive all %d lines, it received %d" % (len(names), raw)
    return None


def run(ctx):
    ctx.assumptions += ["the wiring aggregator output -> Table.In is in cfg/imperatives (checked by the extractor fact on table.New and exercised by C20's harness)"]
    ctx.prepare()
    ctx.lean(["Crng.Props.C11"], ["Crng.Props.C11.aggregate_only_routes", "Crng.Props.C11.aggregate_routes_exact", "Crng.Props.C11.no_amplification",
                                  "Crng.Props.C11.dropraw_exact", "Crng.Props.C11.consumed_withheld", "Crng.Props.C11.others_unaffected"],
             ties=["Crng.Tie.C11", common.CODE_TABLE, common.CODE_AGG, common.CODE_COMPOSE])
    # the same pipeline while the running table is changed through its admin API between bursts of repeated traffic: real table
    # vs the model rebuilt from the resulting configuration (anything remembered from before a change shows as a difference)
    ctx.stream("table-history", "table", tg.history_cases(ctx.rng("c11h"), ctx.scale(60, 1200), nagg=(1, 3), nroutes=(2, 5)), classify=classify, nontrivial=nontrivial,
               spec_exact=True, timeout=ctx.scale(600, 3000), removable=tg.HISTORY_REMOVABLE)
    ctx.stream("aggregation-backpressure", "aggbp", bp_cases(ctx.rng("c11bp"), ctx.scale(16, 300)), model=False, monitor=bp_monitor, shrink=False,
               timeout=ctx.scale(300, 3000), classify=lambda l, o: "dropraw=%s inbuf=%s" % (l[0].split()[2], l[0].split()[1]))
    ctx.stream("table-aggregations", "table", cases(ctx.rng("c11"), ctx.scale(200, 4000)), classify=classify, nontrivial=nontrivial, spec_exact=True,
               removable=lambda l: l.startswith(("in ", "inm ", "aggin ")))
