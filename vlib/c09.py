"""C09 — the disk spool queue is an exact persistent FIFO across clean restarts"""
from . import dqgen

LEVEL_TEXT = ("Lean theorem Crng.Props.C09.fifo: for every configuration and every history of put/get/close+reopen the "
              "byte-level model of nsqd/diskqueue.go refines the abstract list queue and depth = its length; the model is tied "
              "to the code by exact differential runs (outputs, depth) of random histories on the real DiskQueue.")


def run(ctx):
    ctx.assumptions += ["filesystem calls succeed (no I/O errors)", "message length < 2^31 (the code rejects larger)",
                        "clean restarts only (crashes are C08)"]
    ctx.prepare()
    ctx.lean(["Crng.Props.C09"], ["Crng.Props.C09.fifo", "Crng.Props.C09.fifo_from"])
    rnd = ctx.rng("c09")
    n = ctx.scale(120, 1500)
    cases = dqgen.gen_cases(rnd, n, ctx.scale(60, 400), "h", empty_get=0.02, reopen_p=0.09)
    # sizes straddling the segment limit, including messages of several segments
    cases += dqgen.gen_cases(rnd, ctx.scale(60, 600), 40, "big", maxbs=(1, 4, 7, 10), ses=(1, 2, 5), sizes=(0, 2, 3, 4, 6, 7, 11, 25, 33), reopen_p=0.15)
    # realistic message sizes (a spooled metric line may be several KB: long tag lists) in realistic and in tiny segments
    cases += dqgen.gen_cases(rnd, ctx.scale(12, 120), 14, "kb", maxbs=(100, 5000, 70000, 1000000), ses=(1, 5, 100),
                             sizes=(10, 300, 4090, 4096, 4097, 5000, 9000, 20000, 65535, 65536, 70000), reopen_p=0.12)
    # reopen after every op
    for i in range(ctx.scale(10, 100)):
        ops = dqgen.gen_history(rnd, 25, (0, 1, 3, 9), 0.0, 0.0)
        inter = []
        for o in ops:
            inter += [o, "reopen"]
        cases.append(("ro%d" % i, ["cfg %d %d" % (rnd.choice((0, 5, 12, 100)), rnd.choice((1, 3, 50)))] + inter + ["end"]))

    def cls(lines, out):
        nput = sum(1 for l in lines if l.startswith("put"))
        nre = sum(1 for l in lines if l == "reopen")
        return "puts=%s reopens=%s" % ("0" if nput == 0 else "1-9" if nput < 10 else "10+", "0" if nre == 0 else "1+")

    ctx.stream("dq-fifo", "dq", cases, harness_args=["nocrash"], monitor=dqgen.fifo_monitor, classify=cls,
               nontrivial=lambda lines, out: tuple(out) if any(l.startswith("get ") and not l.startswith("get none") for l in out) else None,
               timeout=ctx.scale(600, 3000))
