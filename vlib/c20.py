"""C20 — configuration means what the documentation says, in both syntaxes"""
import os
import re
from . import common, tablegen as tg

LEVEL_TEXT = ("Lean model of the admin/init command readers (toki tokenisation, addBlack / addAgg / addRewriter / addRoute with destination "
              "option strings) and of the TOML Init* functions on decoded sections, with theorems dest_option_sets_its_field, defaults, "
              "dest_options_commute, expand_only_documented. Regenerated obligations: token table, readDestination defaults, expandVars arms. "
              "Correspondence: generated entry descriptions rendered as command strings and as TOML sections, applied to real tables "
              "(imperatives.Apply; toml.Decode + cfg.InitTable) and read back field by field (unexported ones by reflection), compared with the "
              "model, with each other and with the defaults tables of docs/config.md; config-file interpolation through the real binary.")

WORDS = ["foo", "foo.", "bar.baz", "stats.timers", "prod.", "a", "x-y", "=", "collectd.localhost", "_is_", "abc.def.ghi"]
REGEXES = ["^foo", "^stats\\.timers\\.(app|proxy)[0-9]+\\.requests\\.(.*)", "(Err/s|wait_time|logger)", "^a\\.b$", "[0-9]+$", "cpu", "^(web[0-9])\\.(.*)"]
MOPTS = ["prefix", "notPrefix", "sub", "notSub", "regex", "notRegex"]
DEST_OPTS = {   # option -> (kind, field in the canonical line)
    "flush": ("num", "flush"), "reconn": ("num", "reconn"), "pickle": ("bool", "pickle"), "spool": ("bool", "spool"), "connbuf": ("num", "connbuf"),
    "iobuf": ("num", "iobuf"), "spoolbuf": ("num", "spoolbuf"), "spoolmaxbytesperfile": ("num", "maxbytes"), "spoolsyncevery": ("num", "syncevery"),
    "spoolsyncperiod": ("num", "syncperiod"), "spoolsleep": ("num", "spoolsleep"), "unspoolsleep": ("num", "unspoolsleep"),
    "prefix": ("word", "pre"), "notPrefix": ("word", "npre"), "sub": ("word", "sub"), "notSub": ("word", "nsub"), "regex": ("re", "re"), "notRegex": ("re", "nre")}


def doc_defaults():
    """the defaults column of the 'carbon destination' and 'grafanaNet route' tables of docs/config.md"""
    text = open(os.path.join(common.REPO, "docs", "config.md")).read()

    def table(title):
        sec = text[text.index(title):]
        rows = {}
        for ln in sec.split("\n")[1:]:
            if ln.startswith("## ") and rows:
                break
            parts = [p.strip() for p in ln.split("|")]
            if len(parts) >= 4 and parts[0] and not parts[0].startswith("-") and parts[0] != "setting":
                rows[parts[0]] = parts[3]
        return rows

    def num(v):
        v = v.strip('"')
        m = re.fullmatch(r"(\d+)(k|M|MiB)?", v)
        if m:
            return int(m.group(1)) * {None: 1, "k": 1000, "M": 1000000, "MiB": 1024 * 1024}[m.group(2)]
        return v
    return {k: num(v) for k, v in table("## carbon destination").items()}, {k: num(v) for k, v in table("## grafanaNet route").items()}


def mvals(rnd, maxn=3):
    opts = {}
    for o in rnd.sample(MOPTS, rnd.randint(0, maxn)):
        opts[o] = rnd.choice(REGEXES) if "egex" in o else rnd.choice(WORDS)
    return opts


def gen_dest(rnd, allow_matcher=True):
    addr = rnd.choice(["127.0.0.1:2003", "10.0.0.2:2004", "graphite.prod:2003", "10.1.1.1:2003:a", "localhost"])
    opts = []
    names = [k for k in DEST_OPTS if allow_matcher or DEST_OPTS[k][0] in ("num", "bool")]
    for o in rnd.sample(names, rnd.randint(0, 6)):
        kind = DEST_OPTS[o][0]
        if kind == "num":
            v = str(rnd.choice([1, 5, 100, 1000, 12345, 2000000]))
        elif kind == "bool":
            v = rnd.choice(["true", "false"])
        elif kind == "re":
            v = rnd.choice(REGEXES)
        else:
            v = rnd.choice(WORDS)
        opts.append((o, v))
    return addr, opts


WS_RND = None      # set by run(): the PRNG for layout-only choices


def dest_str(d):
    return " ".join([d[0]] + ["%s=%s" % kv for kv in d[1]])


def tq(s):
    return "'" + s + "'"


def gen_entry(rnd):
    k = rnd.random()
    if k < 0.2:
        return ("black", rnd.choice(MOPTS), rnd.choice(REGEXES) if rnd.random() < 0.3 else rnd.choice(WORDS))
    if k < 0.35:
        return ("rw", rnd.choice(["foo", "a.b", "/^prod\\.(.*)/", "__"]), rnd.choice(["bar", "x", "${1}_y", "$1"]), None)
    if k < 0.6:
        m = mvals(rnd, 2)
        m["regex"] = rnd.choice(REGEXES)
        return ("agg", rnd.choice(["sum", "avg", "max", "min", "last", "count", "delta", "derive", "stdev"]), m, rnd.choice(["agg.$1", "stats._sum_$1.x.$2", "${1}_x"]),
                rnd.choice([1, 10, 60]), rnd.choice([0, 5, 20, 120]), rnd.choice([None, True, False]), rnd.choice([None, True, False]))
    typ = rnd.choice(["sendAllMatch", "sendFirstMatch", "consistentHashing"])
    nd = rnd.randint(2, 3) if typ == "consistentHashing" else rnd.randint(1, 3)
    return ("route", typ, rnd.choice(["carbon-default", "analytics", "r1", "main"]), mvals(rnd, 2), [gen_dest(rnd, typ != "consistentHashing") for _ in range(nd)],
            rnd.random() < 0.3)


def render_cmd(e):
    if e[0] == "black":
        return "addBlack %s %s" % (e[1], e[2])
    if e[0] == "rw":
        mx = -1 if e[1].startswith("/") else e[3] if e[3] is not None else -1
        return "addRewriter %s %s %d" % (e[1], e[2], mx)
    if e[0] == "agg":
        _, fn, m, fmt, iv, w, cache, dr = e
        s = "addAgg %s %s %s %d %d" % (fn, " ".join("%s=%s" % kv for kv in m.items()), fmt, iv, w)
        if cache is not None:
            s += " cache=%s" % str(cache).lower()
        if dr is not None:
            s += " dropRaw=%s" % str(dr).lower()
        return s
    _, typ, key, m, dests, _ = e
    s = "addRoute %s %s" % (typ, key)
    if m:
        s += " " + " ".join("%s=%s" % kv for kv in m.items())
    return s + "  " + "  ".join(dest_str(d) for d in dests)


def render_toml(e):
    """(toml text, decoded-entry token for the model)"""
    hx = tg.hx
    if e[0] == "black":
        ent = "%s %s" % (e[1], e[2])
        return None, "B:" + hx(ent), ent
    if e[0] == "rw":
        mx = -1 if e[1].startswith("/") else e[3] if e[3] is not None else -1
        return "[[rewriter]]\nold = %s\nnew = %s\nmax = %d\n" % (tq(e[1]), tq(e[2]), mx), "W:%s:%s:-:%d" % (hx(e[1]), hx(e[2]), mx), None
    if e[0] == "agg":
        _, fn, m, fmt, iv, w, cache, dr = e
        t = "[[aggregation]]\nfunction = %s\nformat = %s\ninterval = %d\nwait = %d\n" % (tq(fn), tq(fmt), iv, w)
        substr = ""
        for k, v in m.items():
            t += "%s = %s\n" % (k, tq(v))
        if cache is not None:
            t += "cache = %s\n" % str(cache).lower()
        if dr is not None:
            t += "dropRaw = %s\n" % str(dr).lower()
        tok = "A:%s:%s:%s:%s:%s:%s:%s:%s:%s:%d:%d:%d:%d" % (hx(fn), hx(m.get("prefix", "")), hx(m.get("notPrefix", "")), hx(m.get("sub", "")), hx(substr), hx(m.get("notSub", "")),
                                                         hx(m.get("regex", "")), hx(m.get("notRegex", "")), hx(fmt), 1 if cache else 0, iv, w, 1 if dr else 0)
        return t, tok, None
    _, typ, key, m, dests, use_substr = e
    t = "[[route]]\nkey = %s\ntype = %s\n" % (tq(key), tq(typ))
    sub, substr = m.get("sub", ""), ""
    for k, v in m.items():
        if k == "sub" and use_substr:
            t += "substr = %s\n" % tq(v)
            sub, substr = "", v
        else:
            t += "%s = %s\n" % (k, tq(v))
    # in the file the options of a destination may be aligned in columns: runs of blanks between them (the text the model
    # gets, `tok`, is the same destination with single blanks)
    def spaced(d):
        sep = WS_RND.choice([" ", " ", "  ", "   ", " \t "]) if WS_RND is not None else " "
        return sep.join([d[0]] + ["%s=%s" % kv for kv in d[1]])
    t += "destinations = [\n" + "".join("  %s,\n" % tq(spaced(d)) for d in dests) + "]\n"
    tok = "R:%s:%s:%s:%s:%s:%s:%s:%s:%s:%s" % (typ, hx(key), hx(m.get("prefix", "")), hx(m.get("notPrefix", "")), hx(sub), hx(substr), hx(m.get("notSub", "")),
                                             hx(m.get("regex", "")), hx(m.get("notRegex", "")), ";".join(hx(dest_str(d)) for d in dests))
    return t, tok, None


def build(rnd, n):
    cases, meta = [], {}
    for i in range(n):
        entries = [gen_entry(rnd) for _ in range(rnd.randint(1, 5))]
        # unique route keys
        seen = set()
        entries = [e for e in entries if not (e[0] == "route" and (e[2] in seen or seen.add(e[2])))]
        cmds = [render_cmd(e) for e in entries]
        texts, toks, blacks = [], [], []
        for e in entries:
            t, tok, b = render_toml(e)
            if t:
                texts.append(t)
            if b:
                blacks.append(b)
            toks.append(tok)
        order = {"B": 0, "A": 1, "W": 2, "R": 3}
        toks.sort(key=lambda x: order[x[0]])   # InitTable order: blacklist, aggregation, rewrite, routes
        toml = ("blacklist = [%s]\n" % ", ".join(tq(b) for b in blacks) if blacks else "") + "\n".join(texts)
        cid = "e%d" % i
        cases.append((cid, ["cmd " + " ".join(tg.hx(c) for c in cmds), "toml %s %s" % (tg.hx(toml), " ".join(toks))]))
        meta[cid] = entries
    return cases, meta


def split_out(out):
    """the two result blocks of a case (cmd, toml)"""
    blocks, cur = [], []
    for o in out:
        cur.append(o)
        if o in ("end", "err") or o.startswith("panic"):
            blocks.append(cur)
            cur = []
    return blocks


def make_monitor(meta, ddef):
    def monitor_case(cid, out):
        blocks = split_out(out)
        if len(blocks) != 2:
            return "expected two result blocks, got %d" % len(blocks)
        c, t = blocks
        if c[-1] != "end":
            return "the command form was rejected: %r" % c[-1]
        if t[-1] != "end":
            return "the TOML form was rejected: %r" % t[-1]
        entries = meta[cid]
        # (1) both syntaxes give the same entries, except the documented difference: aggregation cache defaults to true for
        #     commands and false for config sections
        def norm(lines, cmd):
            res = []
            for l in lines:
                if l.startswith("agg "):
                    l = re.sub(r" cache=(true|false)", "", l)
                res.append(l)
            return res
        if norm(c, True) != norm(t, False):
            k = next((i for i, (a, b) in enumerate(zip(norm(c, True), norm(t, False))) if a != b), 0)
            return "command and TOML forms of the same entries differ: %r vs %r" % (c[k][:200], t[k][:200] if k < len(t) else None)
        # (2) aggregation cache: explicit value honoured in both; omitted: documented per-syntax default
        aggs = [e for e in entries if e[0] == "agg"]
        for lines, dflt in ((c, "true"), (t, "false")):
            al = [l for l in lines if l.startswith("agg ")]
            for e, l in zip(aggs, al):
                want = dflt if e[6] is None else str(e[6]).lower()
                if " cache=%s " % want not in l + " ":
                    return "aggregation cache: expected %s in %r" % (want, l[:160])
                wantd = "false" if e[7] is None else str(e[7]).lower()
                if not l.endswith("dropraw=%s" % wantd):
                    return "aggregation dropRaw: expected %s in %r" % (wantd, l[:200])
        # (3) every destination option sets exactly its field; every omitted option has its documented default
        dls = [l for l in c if l.startswith("dest ")]
        dests = [d for e in entries if e[0] == "route" for d in e[4]]
        if len(dls) != len(dests):
            return "%d destinations configured, %d in the table" % (len(dests), len(dls))
        for d, l in zip(dests, dls):
            got = dict(kv.split("=", 1) for kv in l.split()[1:])
            given = {}
            for o, v in d[1]:
                given[o] = v      # a repeated option: the last one wins
            for o, (kind, field) in DEST_OPTS.items():
                if o in given:
                    want = given[o]
                    want = tg.hx(want) if kind in ("word", "re") else want
                else:
                    dv = ddef.get(o, "")
                    want = "-" if kind in ("word", "re") else str(dv).strip('"').lower() if not isinstance(dv, int) else str(dv)
                if got.get(field) != want:
                    return "destination %r: option %s should give %s=%s, table has %s" % (dest_str(d), o, field, want, got.get(field))
        return None
    return monitor_case


GN_OPTS = {"sslverify": ("bool", "sslverify"), "spool": ("bool", "spool"), "blocking": ("bool", "blocking"), "concurrency": ("num", "concurrency"),
           "bufSize": ("num", "bufsize"), "flushMaxNum": ("num", "flushmaxnum"), "flushMaxWait": ("num", "flushmaxwait"), "timeout": ("num", "timeout"),
           "orgId": ("num", "orgid"), "errBackoffMin": ("num", "errbackoffmin"), "errBackoffFactor": ("float", "errbackofffactor")}


def gn_cases(rnd, n):
    """grafanaNet routes in both syntaxes; the schemas/aggregation files are the repo's examples"""
    sf = os.path.join(common.REPO, "examples", "storage-schemas.conf")
    af = os.path.join(common.REPO, "examples", "storage-aggregation.conf")
    cases, meta = [], {}
    for i in range(n):
        m = mvals(rnd, 2)
        opts = []
        for o in rnd.sample(sorted(GN_OPTS), rnd.randint(0, 5)):
            kind = GN_OPTS[o][0]
            v = rnd.choice(["true", "false"]) if kind == "bool" else str(rnd.choice([1, 2, 3, 7, 10, 50, 100, 1234])) if kind == "num" else rnd.choice(["2.5", "1.25", "3.5", "1.0", "0.5", "1.01", "10.0", "0.001"])
            opts.append((o, v))
        key = "gn%d" % i
        addr = "https://example.com/metrics"
        cmd = "addRoute grafanaNet %s%s  %s apikey123 %s %s%s" % (key, "".join(" %s=%s" % kv for kv in m.items()), addr, sf, af, "".join(" %s=%s" % kv for kv in opts))
        toml = "[[route]]\nkey = %s\ntype = 'grafanaNet'\naddr = %s\napikey = 'apikey123'\nschemasFile = %s\naggregationFile = %s\n" % (tq(key), tq(addr), tq(sf), tq(af))
        toml += "".join("%s = %s\n" % (k, tq(v)) for k, v in m.items()) + "".join("%s = %s\n" % (o, v) for o, v in opts)
        cid = "g%d" % i
        cases.append((cid, ["cmd " + tg.hx(cmd), "toml " + tg.hx(toml)]))
        meta[cid] = (m, opts)
    return cases, meta


def make_gn_monitor(meta, gdef):
    def mon(cid, out):
        blocks = split_out(out)
        if len(blocks) != 2 or blocks[0][-1] != "end" or blocks[1][-1] != "end":
            return "a grafanaNet route was rejected in one of the syntaxes: %r" % [b[-1] for b in blocks]
        c, t = blocks
        if c != t:
            return "command and TOML forms of the same grafanaNet route differ: %r vs %r" % (c[0][:300], t[0][:300])
        m, opts = meta[cid]
        got = dict(kv.split("=", 1) for kv in c[0].split()[1:])
        given = dict(opts)
        for o, (kind, field) in GN_OPTS.items():
            want = given.get(o, gdef.get(o))
            want = str(want).lower()
            g = got.get(field)
            if kind == "float":
                if float(g) != float(want):
                    return "grafanaNet option %s: expected %s, route has %s" % (o, want, g)
            elif g != want:
                return "grafanaNet option %s: expected %s (given or documented default), route has %s=%s" % (o, want, field, g)
        for k, f in (("prefix", "pre"), ("notPrefix", "npre"), ("sub", "sub"), ("notSub", "nsub"), ("regex", "re"), ("notRegex", "nre")):
            if got.get(f) != (tg.hx(m[k]) if k in m else "-"):
                return "grafanaNet filter option %s not applied: %r" % (k, got.get(f))
        return None
    return mon


def interp_cases(rnd, n):
    pieces = ["$1", "${1}", "$$", "${}", "${1", "$HOSTNAME", "$HOST_X", "${HOST}", "$HOST", "$HOST.foo", "${GRAFANA_NET_ADDR}", "$GRAFANA_NET_API_KEY", "${GRAFANA_NET_USER_ID}:x",
              "$", "$ ", "$1.$2.$3", "${1}_x", "${DC}_${ROLE}", "$name", "${name}", "a$b", "$GRAFANA_NET_ADDRx", "text", "\n", " = ", "'", "$2$1", "${10}", "$HOST$HOST"]
    out = []
    for _ in range(n):
        out.append("".join(rnd.choice(pieces) for _ in range(rnd.randint(1, 8))))
    return out


def run(ctx):
    ctx.assumptions += ["option values that tokenise as a single `word` (no spaces; not all digits, not `true`/`false`, not a function name followed by a space)",
                        "TOML decoding into cfg.Config is external (BurntSushi/toml); the model starts from the decoded sections",
                        "kafkaMdm / pubsub / cloudWatch routes are outside the correspondence (they need brokers/credentials); grafanaNet through the monitor only"]
    global WS_RND
    WS_RND = ctx.rng("c20ws")
    ctx.prepare()
    ctx.lean(["Crng.Props.C20"], ["Crng.Props.C20.dest_option_sets_its_field", "Crng.Props.C20.dest_defaults", "Crng.Props.C20.dest_options_commute",
                                  "Crng.Props.C20.route_option_sets_its_field", "Crng.Props.C20.expand_only_documented", "Crng.Props.C20.expand_group_refs"],
             ties=["Crng.Tie.C20", common.CODE_READDEST, common.CODE_CFG, common.CODE_READAGG, common.CODE_AGREE])
    ddef, gdef = doc_defaults()
    cases, meta = build(ctx.rng("c20"), ctx.scale(250, 5000))
    real, model = ctx.stream("cmd-vs-toml", "cfg", cases, spec_exact=True, shrink=False, timeout=ctx.scale(300, 3000),
                             classify=lambda l, o: "ok" if o.count("end") == 2 else "rejected")
    mon = make_monitor(meta, ddef)
    nfail = 0
    for cid, lines in cases:
        r = real.get(cid)
        if r is None:
            continue
        try:
            err = mon(cid, r)
        except Exception as e:
            err = "monitor could not interpret the output: %s %s" % (type(e).__name__, e)
        if err:
            nfail += 1
            if nfail <= 3:
                ctx.problem("property-monitor", "config-semantics", lines, err, True)
    ctx.oblige("property monitor config-semantics: command = TOML entry (documented cache default aside), each option sets its field, omitted options take the docs/config.md defaults", "monitor", nfail == 0, "%d cases" % nfail)
    # grafanaNet routes: both syntaxes on the real code, and the defaults table of the docs (monitor only)
    gcases, gmeta = gn_cases(ctx.rng("gn"), ctx.scale(40, 600))
    greal, _ = ctx.stream("grafananet-cmd-vs-toml", "cfg", gcases, model=False, shrink=False, timeout=ctx.scale(300, 3000), nontrivial=lambda l, o: tuple(o))
    gmon = make_gn_monitor(gmeta, gdef)
    gfail = 0
    for cid, lines in gcases:
        r = greal.get(cid)
        if r is None:
            continue
        try:
            err = gmon(cid, r)
        except Exception as e:
            err = "monitor could not interpret the output: %s %s" % (type(e).__name__, e)
        if err:
            gfail += 1
            if gfail <= 3:
                ctx.problem("property-monitor", "grafananet-config", lines, err, True)
    ctx.oblige("property monitor grafananet-config: command = TOML, every option sets its field, omitted options take the docs defaults", "monitor", gfail == 0, "%d cases" % gfail)
    # config-file interpolation through the real binary
    with common.Lock():
        okr, msg = common.build_relay()
    ctx.oblige("relay binary builds with -tags verif (interpolation hook)", "tie-B", okr, msg)
    if okr:
        texts = interp_cases(ctx.rng("interp"), ctx.scale(300, 5000)) + ["key = 'x'\nformat = 'a.${1}.$2'\naddr = \"${GRAFANA_NET_ADDR}\"\napikey = \"${GRAFANA_NET_USER_ID}:${GRAFANA_NET_API_KEY}\"\ninstance = \"${HOST}\"\n"]

        def imon(lines, out):
            for l, o in zip(lines, out):
                src = bytes.fromhex(l.split()[1])
                got = b"" if o == "-" else bytes.fromhex(o) if o != "experr" else None
                if got is None:
                    return "the relay could not read the config text %r" % src
                # model-free: removing the documented references from both sides leaves the same text
                import re as _re
                pat = _re.compile(rb"\$\{(HOST|GRAFANA_NET_ADDR|GRAFANA_NET_API_KEY|GRAFANA_NET_USER_ID)\}|\$(HOST|GRAFANA_NET_ADDR|GRAFANA_NET_API_KEY|GRAFANA_NET_USER_ID)(?![0-9A-Za-z_])")
                want = pat.sub(lambda m: {b"HOST": b"<HOST>", b"GRAFANA_NET_ADDR": b"<ADDR>", b"GRAFANA_NET_API_KEY": b"<KEY>", b"GRAFANA_NET_USER_ID": b"<UID>"}[m.group(1) or m.group(2)], src)
                if got != want:
                    return "interpolation turned %r into %r; only the documented variables may be substituted (expected %r)" % (src, got, want)
            return None
        ic = [("i%d" % i, ["interp " + tg.hx(t) for t in texts[i:i + 50]]) for i in range(0, len(texts), 50)]
        ctx.stream("interpolation", "interp", ic, spec_exact=True, monitor=imon, removable=lambda l: True, timeout=ctx.scale(300, 3000))
    # malformed / edge commands: accept/reject and result must agree with the model
    rnd = ctx.rng("c20bad")
    bad = []
    for i in range(ctx.scale(400, 6000)):
        e = gen_entry(rnd)
        c = render_cmd(e)
        k = rnd.random()
        if k < 0.25:
            c = c.replace("  ", " ", 1)
        elif k < 0.4:
            ws = c.split(" ")
            del ws[rnd.randrange(len(ws))]
            c = " ".join(ws)
        elif k < 0.55:
            c += rnd.choice([" flush=abc", " pickle=maybe", " prefix=", " unknown=1", " cache=1", " regex=(", " spool=true", " 12"])
        elif k < 0.65:
            c = c.replace("=", "= ", 1)
        bad.append(("b%d" % i, ["cmd " + tg.hx(c)]))
    ctx.stream("cmd-mutated", "cfg", bad, spec_exact=True, shrink=False, classify=lambda l, o: o[-1] if o else "none")
