"""C01 — every accepted metric reaches exactly the matching routes and destinations"""
from . import tablegen as tg
from . import common

LEVEL_TEXT = ("Lean theorems routes_exact / sendAll_exact / sendFirst_exact / blacklisted_nowhere / invalid_nowhere over a model of "
              "Table.Dispatch and the route Dispatch loops written as the Go code is (loops with return/break, routed flag), for arbitrary "
              "filters; tie: real tables (blacklist, rewriters, aggregators, capture + sendAllMatch/sendFirstMatch routes with down "
              "destinations whose drop counters identify the receiver) fed line by line, compared with the model on routes, destinations, "
              "final line and the five counters.")


def cases(ctx, name, n, nlines, **kw):
    rnd = ctx.rng(name)
    out = []
    for i in range(n):
        t = tg.table(rnd, **kw)
        ls = []
        for _ in range(nlines):
            line, bits, ts = tg.metric_line(rnd)
            ls.append("in %s %d %d" % (tg.hx(line), bits, ts))
        out.append(("%s%d" % (name, i), t + ls + ["bad"]))
    return out


def classify(lines, out):
    k = []
    if any(o.startswith("res") and "bl=1" in o for o in out):
        k.append("blacklisted")
    if any(o.startswith("res") and "unr=1" in o for o in out):
        k.append("unroutable")
    if any(o.startswith("d ") for o in out):
        k.append("routed")
    if any(o.startswith("a ") for o in out):
        k.append("aggregated")
    if any(o.startswith("res") and "inv=1" in o for o in out):
        k.append("invalid")
    return "+".join(k) or "nothing"


def nontrivial(lines, out):
    return tuple(o for o in out if o.startswith(("d ", "a ", "ad "))) or None


def run(ctx):
    ctx.assumptions += ["regular expressions: Go regexp on the real side, the Lean engine Crng/Rx.lean on the model side (validated separately, stream rx)",
                        "delivery inside a destination is C05-C07; kafka/pubsub/cloudwatch/grafanaNet routes only through their Match"]
    ctx.prepare()
    ctx.lean(["Crng.Props.C01"], ["Crng.Props.C01.routes_exact", "Crng.Props.C01.sendAll_exact", "Crng.Props.C01.sendFirst_exact",
                                  "Crng.Props.C01.blacklisted_nowhere", "Crng.Props.C01.unroutable_iff", "Crng.Props.C01.outcome_partition"],
             ties=[common.CODE_TABLE, common.CODE_ROUTE, common.CODE_MATCHER, common.CODE_COMPOSE])
    cs = cases(ctx, "t", ctx.scale(150, 3000), 25)
    # "exactly once to each matching route" also while the table is being changed: a Dispatch held inside the pipeline during
    # admin operations (C18's in-flight stream, fewer cases) must have done what some complete table of that history does
    from . import c18
    ctx.stream("in-flight", "midflight", c18.inflight_cases(ctx.rng("c01f"), ctx.scale(8, 100)), model=False, monitor=c18.inflight_monitor, shrink=False,
               timeout=ctx.scale(600, 3000), classify=lambda l, o: "changes=%d" % (sum(1 for x in l if x.startswith("probe ")) - 1))
    ctx.stream("table", "table", cs, classify=classify, nontrivial=nontrivial, spec_exact=True, timeout=ctx.scale(600, 3000),
               removable=lambda l: l.startswith(("in ", "inm ", "aggin ")))
    # the same while routes, destinations, blacklist, rewriters and aggregations are added, removed and modified through the admin
    # API between bursts of repeated names: after every change the routing is that of the table as it now is (nothing remembered)
    ctx.stream("table-history", "table", tg.history_cases(ctx.rng("c01h"), ctx.scale(60, 1200), nroutes=(2, 5)), classify=classify, nontrivial=nontrivial,
               spec_exact=True, timeout=ctx.scale(600, 3000), removable=tg.HISTORY_REMOVABLE)
