"""shared generators"""
import struct

NODES = ["a", "b", "ab", "abc", "foo", "bar", "x", "y", "cpu", "load", "web1", "web2", "prod", "stats", "count", "1", "_t"]


def name(rnd, maxnodes=4):
    return ".".join(rnd.choice(NODES) for _ in range(rnd.randint(1, maxnodes)))


def fbits(s):
    """IEEE-754 bits of the correctly rounded double for decimal text s (what strconv.ParseFloat gives)"""
    return struct.unpack(">Q", struct.pack(">d", float(s)))[0]


VALS = ["1", "0", "42", "1.5", "-3.25", "1e3", "0.000001", "123456789.125", "3.14159", "+5", "1e-7", "65536"]


def line(rnd, ts=None):
    v = rnd.choice(VALS)
    if ts is None:
        ts = rnd.choice([1, 255, 256, 65535, 65536, 1500000000, 2147483647, 2147483648, 4294967295, rnd.randint(1, 2000000000)])
    return "%s %s %d" % (name(rnd), v, ts), v
