"""C05 — a healthy carbon connection carries the lines in order, once, unbroken"""
from . import gen

LEVEL_TEXT = ("Lean theorems Crng.Props.C05.stream_invariant / socket_prefix / healthy_stream / healthy_lines over a "
              "statement-level model of destination/bufwriter.go and Conn.Write: for every op sequence, buffer size and socket "
              "behaviour the stream is the accepted bytes in order; on a healthy connection every line arrives once, in order, "
              "newline-terminated (or as length-prefixed pickles). Tie: exact differential of the real Writer under scripted "
              "short/failing sockets, of destination.Pickle, and of a real Destination against a loopback endpoint.")


def bw_cases(rnd, n):
    cases = []
    for i in range(n):
        cap = rnd.choice([1, 2, 3, 4, 7, 8, 16, 64])
        ops = ["new %d" % cap]
        if rnd.random() < 0.5:
            sc = []
            for _ in range(rnd.randint(1, 12)):
                r = rnd.random()
                sc.append("full" if r < 0.7 else ("short:%d" % rnd.randint(1, 5) if r < 0.85 else "fail:%d" % rnd.randint(0, 5)))
            ops.append("script " + ",".join(sc))
        for _ in range(rnd.randint(1, 30)):
            if rnd.random() < 0.8:
                ln = rnd.choice([0, 1, 2, 3, cap - 1 if cap > 1 else 1, cap, cap + 1, 2 * cap, 3 * cap + 1])
                ops.append(("w " + bytes(rnd.getrandbits(8) for _ in range(ln)).hex()).rstrip())
            else:
                ops.append("f")
        ops.append("end")
        cases.append(("bw%d" % i, ops))
    return cases


def bw_monitor(lines, out):
    """model-free: socket ++ (what is still buffered) == accepted prefixes, in order (buffered bytes are not
    observable here, so: socket is a prefix of the accepted bytes, and equal to them after an error-free final flush)"""
    acc = b""
    err = False
    res = iter(out)
    lastbuf = 0
    for op in lines:
        f = op.split()
        if f[0] == "w":
            r = next(res).split()
            p = bytes.fromhex(f[1]) if len(f) > 1 else b""
            nn = int(r[1])
            if nn > len(p):
                return "Write reported %d bytes for a %d byte slice" % (nn, len(p))
            acc += p[:nn]
            err = err or r[2] == "true"
            lastbuf = int(r[3])
        elif f[0] == "f":
            r = next(res).split()
            err = err or r[1] == "true"
            lastbuf = int(r[2])
        elif f[0] == "end":
            sp = next(res).split()
            sock = bytes.fromhex(sp[1]) if len(sp) > 1 else b""
            if not acc.startswith(sock):
                return "socket bytes %s are not a prefix of the accepted bytes %s" % (sock.hex(), acc.hex())
            if not err and len(sock) + lastbuf != len(acc):
                return "socket(%d)+buffered(%d) != accepted(%d) without any error" % (len(sock), lastbuf, len(acc))
    return None


def pk_cases(rnd, n):
    cases = []
    lines = []
    for i in range(n):
        ln = rnd.choice([0, 1, 5, 20, 100, 227, 228, 229, 254, 255, 256, 257, 300, 1000, 70000 if rnd.random() < 0.05 else 40])
        nm = bytes(rnd.choice(b"abcdefghijklmnopqrstuvwxyz.;=_-0123456789") for _ in range(ln))
        ts = rnd.choice([0, 1, 255, 256, 65535, 65536, 2**31 - 1, 2**31, 2**32 - 1, rnd.randint(0, 2**32 - 1)])
        bits = rnd.choice([0, 1 << 63, 0x3FF0000000000000, 0x7FF0000000000000, 0x7FF8000000000001, rnd.getrandbits(64)])
        lines.append("%s %d %d" % (nm.hex() or "-", ts, bits))
    # one case per 50 lines
    for j in range(0, len(lines), 50):
        cases.append(("pk%d" % (j // 50), lines[j:j + 50]))
    return cases


def pk_monitor(lines, out):
    """"a sequence of 4-byte big-endian length-prefixed pickles, one per line": every message is a length prefix followed by a
    pickle that CPython decodes to [(name, (timestamp, value))] of its line"""
    import pickle as _pk
    import struct as _st
    for l, o in zip(lines, out):
        f = l.split()
        name = b"" if f[0] == "-" else bytes.fromhex(f[0])
        ts, bits = int(f[1]), int(f[2])
        raw = bytes.fromhex(o.split(" | ")[0])
        if len(raw) < 4 or _st.unpack(">I", raw[:4])[0] != len(raw) - 4:
            return "the length prefix of the message for %r does not cover the pickle that follows" % name[:40]
        try:
            obj = _pk.loads(raw[4:], encoding="latin-1")
            (n2, (t2, v2)), = obj
        except Exception as e:
            return "python cannot unpickle the message for %r: %s" % (name[:40], e)
        vb = _st.unpack(">Q", _st.pack(">d", v2))[0] if isinstance(v2, float) else None
        nan = vb is not None and (vb >> 52) & 0x7FF == 0x7FF and (bits >> 52) & 0x7FF == 0x7FF and (vb & 0xFFFFFFFFFFFFF) and (bits & 0xFFFFFFFFFFFFF)
        if n2 != name.decode("latin-1") or t2 != ts or not (vb == bits or nan):
            return "the message for (%r, %d, bits %d) decodes in python to %r" % (name[:40], ts, bits, obj)
    return None


def dest_cases(rnd, n, exact):
    cases = []
    for i in range(n):
        pickle = 1 if rnd.random() < 0.35 else 0
        iobuf = rnd.choice([1, 2, 5, 16, 64, 300, 4096, 2000000])
        nlines = rnd.randint(1, 60)
        connbuf = nlines + 5 if exact else rnd.choice([0, 1, 2, 5])
        flushms = rnd.choice([1, 2, 5, 50])
        ops = ["cfg %d %d %d %d 0" % (pickle, iobuf, connbuf, flushms)]
        if rnd.random() < 0.5:
            ops.append("pace %d" % rnd.choice([50, 300, 2000]))
        for _ in range(nlines):
            if rnd.random() < 0.15:
                ln, v = ("%s %s %d" % ("n" * rnd.choice([5, 64, 3 * iobuf if iobuf < 400 else 700]), "1.5", 1500000000), "1.5")
            else:
                ln, v = gen.line(rnd)
            ops.append("l %s %d" % (ln.encode().hex(), gen.fbits(v)))
        ops.append("end")
        cases.append(("%s%d" % ("dx" if exact else "dd", i), ops))
    return cases


def dest_monitor(lines, out):
    """model-free C05 oracle on what the endpoint received: the stream is the handed-off lines in order, each
    once and newline-terminated (plain mode), except those counted as slow_conn drops"""
    cfg = lines[0].split()
    pickle = cfg[1] == "1"
    sent = [bytes.fromhex(l.split()[1]) for l in lines if l.startswith("l ")]
    recv = b""
    drops = None
    for o in out:
        if o.startswith("cfgerr") or o.startswith("handoff-stalled"):
            return o
        if o.startswith("recv "):
            h = o.split()[2]
            recv += b"" if h == "-" else bytes.fromhex(h)
        if o.startswith("drops "):
            drops = dict(kv.split("=") for kv in o.split()[1:])
    if drops is None:
        return "no counters reported"
    slow = int(drops["slow_conn"])
    if int(drops["conn_down_no_spool"]) or int(drops["bad_pickle"]):
        return "unexpected drops on a healthy connection: %r" % drops
    if pickle:
        # frames: 4-byte BE length + payload; the payload must contain the name, frames in order
        frames = []
        i = 0
        while i < len(recv):
            if i + 4 > len(recv):
                return "pickle stream ends inside a length prefix"
            n = int.from_bytes(recv[i:i + 4], "big")
            if i + 4 + n > len(recv):
                return "pickle frame of %d bytes overruns the stream (torn frame)" % n
            frames.append(recv[i + 4:i + 4 + n])
            i += 4 + n
        j = 0
        for fr in frames:
            while j < len(sent) and sent[j].split(b" ")[0] not in fr:
                j += 1
            if j == len(sent):
                return "a received pickle frame matches no handed-off line in order (reordered, duplicated or corrupt)"
            j += 1
        if len(frames) + slow != len(sent):
            return "%d frames received + %d counted drops != %d lines handed off" % (len(frames), slow, len(sent))
        return None
    if recv and not recv.endswith(b"\n"):
        return "stream does not end with a newline (torn line)"
    got = recv.split(b"\n")[:-1] if recv else []
    j = 0
    for g in got:
        while j < len(sent) and sent[j] != g:
            j += 1
        if j == len(sent):
            return "received line %r is not the next handed-off line (torn, merged, duplicated or reordered)" % g[:80]
        j += 1
    if len(got) + slow != len(sent):
        return "%d lines received + %d counted slow_conn drops != %d lines handed off" % (len(got), slow, len(sent))
    return None


def stall_cases(rnd, n):
    """the endpoint stops reading for a while (the writer blocks in a socket write, conn.In fills, lines are dropped and counted),
    Destination.Flush() is called meanwhile, then the endpoint reads on: the connection never broke, so the stream it delivers
    must still be the handed-off lines in order, each once, whole, minus the counted drops"""
    cases = []
    for i in range(n):
        iobuf = rnd.choice([64, 1000, 4096])
        connbuf = rnd.choice([1, 10, 100])
        ops = ["cfg 0 %d %d %d 0" % (iobuf, connbuf, rnd.choice([1, 5, 20]))]
        k = 0
        for _ in range(rnd.randint(5, 40)):
            ops.append("l %s 0" % ("w.%d 1 1500000000" % k).encode().hex())
            k += 1
        ops.append("mode blackhole")
        for _ in range(rnd.choice([5500, 7000])):      # well beyond the loopback socket buffers (about 4 MB here)
            ops.append("l %s 0" % ("s.%d.%s 1 1500000000" % (k, "y" * 1000)).encode().hex())
            k += 1
        # Destination.Flush() while the writer is blocked (only tests and the shutdown path call it; the relay loop waits
        # for the writer, so nothing is handed off until the endpoint reads again)
        for _ in range(rnd.randint(0, 2)):
            ops.append("flush")
            ops.append("sleep %d" % rnd.choice([1, 10, 40]))
        ops.append("mode healthy")
        ops.append("sleep 50")
        for _ in range(rnd.randint(5, 60)):
            ops.append("l %s 0" % ("a.%d 1 1500000000" % k).encode().hex())
            k += 1
        ops.append("end")
        cases.append(("st%d" % i, ops))
    return cases


def run(ctx):
    ctx.assumptions += ["the kernel delivers over TCP what was written to the socket", "connection healthy for the whole case (outages are C06/C07)"]
    ctx.prepare()
    ctx.lean(["Crng.Props.C05"], ["Crng.Props.C05.stream_invariant", "Crng.Props.C05.socket_prefix", "Crng.Props.C05.healthy_stream",
                                  "Crng.Props.C05.healthy_lines", "Crng.Props.C05.pickle_frame", "Crng.Pk.unpickle_pickle"])
    ctx.stream("bufwriter", "bw", bw_cases(ctx.rng("bw"), ctx.scale(1500, 30000)), monitor=bw_monitor,
               classify=lambda l, o: "script" if any(x.startswith("script") for x in l) else "healthy")
    ctx.stream("pickle-bytes", "pk", pk_cases(ctx.rng("pk"), ctx.scale(1500, 20000)), canon=lambda ls: [l.split(" | ")[0] for l in ls], monitor=pk_monitor, shrink=False)
    ctx.stream("dest-exact", "dest", dest_cases(ctx.rng("dx"), ctx.scale(25, 300), True), monitor=dest_monitor, shrink=False,
               canon=lambda ls: [l for l in ls if not l.startswith("maxhandoff_ms")],
               classify=lambda l, o: "pickle" if l[0].split()[1] == "1" else "plain")
    ctx.stream("dest-smallqueue", "dest", dest_cases(ctx.rng("dd"), ctx.scale(15, 200), False), monitor=dest_monitor, model=False, shrink=False,
               classify=lambda l, o: "drops" if any(x.startswith("drops") and "slow_conn=0" not in x for x in o) else "nodrops")
    ctx.stream("dest-stall-flush", "dest", stall_cases(ctx.rng("dst"), ctx.scale(3, 30)), monitor=dest_monitor, model=False, shrink=False,
               timeout=ctx.scale(600, 3600), classify=lambda l, o: "flushes=%d" % sum(1 for x in l if x == "flush"))
