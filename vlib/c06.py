"""C06 — a bad endpoint never stalls ingestion; steady-state losses are all counted"""
from . import tablegen as tg

LEVEL_TEXT = ("Lean theorems Crng.Props.C06.every_handoff_accounted, handoff_progress, steady_healthy, steady_down_nospool over the relay loop as "
              "a total step function; regenerated obligations (Crng.Tie.C06): the hand-off and unspool branches use select/default sends only, "
              "dialing only in a separate goroutine, Flush/Close only in the flush and shutdown branches, dead connection handling. "
              "Correspondence (monitor): a real destination against loopback endpoints that refuse, accept and never read, read slowly, are "
              "healthy, or close mid-stream, with traffic well beyond every buffer; hand-off latency and the two accounting identities are "
              "checked in the steady phases. PARTIAL: real time, the scheduler and the kernel are not modelled.")


def line(cid, n, size=0):
    name = "m.%s.%d" % (cid, n)
    if size:
        name += "." + "x" * size
    return ("%s 1 1500000000" % name).encode()


def scenario(rnd, cid):
    ops = []
    n = [0]

    def send(k, size=0, pace=None):
        if pace is not None:
            ops.append("pace %d" % pace)
        for _ in range(k):
            ops.append("l " + tg.hx(line(cid, n[0], size)))
            n[0] += 1
    kind = rnd.choice(["healthy", "healthy", "refuse", "blackhole", "slow", "closemid", "closemid", "closemid-idle", "repoint", "repoint"])
    iobuf = rnd.choice([64, 1000, 2000000])
    connbuf = rnd.choice([1, 10, 1000])
    flush = rnd.choice([1, 5, 20])
    if kind == "healthy":
        ops.append("cfg 0 %d %d %d 0 30 healthy" % (iobuf, connbuf, flush))
        ops.append("phase start")
        send(rnd.choice([50, 500, 3000]), pace=rnd.choice([0, 0, 20]))
        ops.append("phase healthy")
    elif kind == "repoint":
        # the operator re-points the destination (modDest addr=...) to an endpoint that never answers the connection attempt,
        # or changes its filter, while traffic keeps flowing: hand-offs must not wait for the admin operation
        ops.append("cfg 0 %d %d %d 0 30 healthy" % (iobuf, connbuf, flush))
        ops.append("phase start")
        send(rnd.choice([50, 300]), pace=rnd.choice([0, 20]))
        ops.append("silent")
        for _ in range(rnd.choice([1, 2])):
            ops.append("update " + rnd.choice(["addr=silent", "addr=silent prefix=m.", "prefix=m. addr=silent"]))
            ops.append("sleep %d" % rnd.choice([0, 5, 100]))
            send(rnd.choice([50, 300]), pace=rnd.choice([0, 20]))
        ops.append("phase repoint")
    elif kind == "refuse":
        ops.append("cfg 0 %d %d %d 0 30 refuse" % (iobuf, connbuf, flush))
        ops.append("sleep 60")
        ops.append("phase start")
        send(rnd.choice([20, 400]))
        ops.append("phase down")
    elif kind in ("blackhole", "slow"):
        ops.append("cfg 0 %d %d %d 0 30 %s" % (rnd.choice([64, 1000]), connbuf, flush, kind))
        ops.append("phase start")
        send(rnd.choice([3000, 8000]), size=rnd.choice([600, 1200]))   # several MB: beyond the socket buffers
        ops.append("phase bad")
        if rnd.random() < 0.7:
            # the endpoint was only slow (or not reading), it never went away: once it reads normally again everything that was
            # not counted as a slow-connection drop arrives, on the one connection there ever was
            ops.append("mode healthy")
            send(rnd.choice([20, 200]), pace=50)
            ops.append("phase resumed")
    else:
        first = "healthy" if kind == "closemid-idle" else rnd.choice(["blackhole", "slow", "healthy"])
        ops.append("cfg 0 %d %d %d 0 30 %s" % (rnd.choice([64, 1000]), connbuf, flush, first))
        ops.append("phase start")
        if kind == "closemid":
            send(rnd.choice([2000, 6000]), size=1000)
            ops.append("down")
            send(500, size=100)
        else:
            send(20)
            ops.append("sleep 20")
            ops.append("down")
        ops.append("sleep 80")
        ops.append("up healthy")
        ops.append("waitonline 1")
        ops.append("sleep 30")
        ops.append("phase recovered")
        send(rnd.choice([100, 1000]), pace=rnd.choice([0, 30]))
        ops.append("phase healthy")
    ops.append("end")
    return ops


def parse_phase(o):
    f = o.split()
    d = dict(kv.split("=") for kv in f[2:])
    return f[1], {k: int(v) for k, v in d.items()}


def monitor(lines, out):
    if any(o == "handoff-stalled" for o in out):
        return "handing a line to the destination blocked for more than 5 s (ingestion stalled)"
    for o in out:
        if o.startswith("cfgerr") or o.startswith("uperr") or o == "silent false":
            return "harness: " + o
    phases = [parse_phase(o) for o in out if o.startswith("phase ")]
    mh = [int(o.split()[1]) for o in out if o.startswith("maxhandoff_ms")]
    if mh and mh[0] > 1500:
        return "a hand-off took %d ms" % mh[0]
    got = set()
    for o in out:
        if o.startswith("recv "):
            # per connection: a connection cut mid-line must not glue its tail to the next connection's first line
            h = o.split()[2]
            got.update((b"" if h == "-" else bytes.fromhex(h)).split(b"\n"))
    # which lines were handed off in which phase interval
    sent_by_phase = []
    cur = []
    for l in lines:
        f = l.split()
        if f[0] == "l":
            cur.append(bytes.fromhex(f[1]))
        elif f[0] == "phase":
            sent_by_phase.append(cur)
            cur = []
    final = None
    for o in out:
        if o.startswith("drops "):
            final = {k: int(v) for k, v in (kv.split("=") for kv in o.split()[1:])}
    for i, (label, c) in enumerate(phases):
        if i == 0:
            continue
        prev = phases[i - 1][1]
        sent = sent_by_phase[i]
        # the last phase's lines may still arrive until `end`: use the final counters for it
        endc = final if i == len(phases) - 1 and final else c
        if label == "healthy":
            missing = [x for x in sent if x not in got]
            dslow = endc["slow_conn"] - prev["slow_conn"]
            ddown = endc["conn_down_no_spool"] - prev["conn_down_no_spool"]
            if ddown:
                return "healthy endpoint, yet %d lines were counted as connection-down" % ddown
            if len(missing) != dslow:
                return "healthy endpoint: %d of %d handed-off lines were not received but %d slow_conn drops were counted" % (len(missing), len(sent), dslow)
        elif label == "resumed":
            allsent = [x for part in sent_by_phase[:i + 1] for x in part]
            missing = [x for x in allsent if x not in got]
            if endc["conn_down_no_spool"]:
                return "the endpoint never went away, yet %d lines were counted as connection-down" % endc["conn_down_no_spool"]
            nconn = sum(1 for o in out if o.startswith("recv "))
            if nconn != 1:
                return "the endpoint never closed its connection, yet the relay opened %d connections" % nconn
            if len(missing) != endc["slow_conn"]:
                return "endpoint slow, then reading again: %d of %d handed-off lines were not received but %d slow_conn drops were counted" % (len(missing), len(allsent), endc["slow_conn"])
        elif label == "down":
            ddown = c["conn_down_no_spool"] - prev["conn_down_no_spool"]
            if ddown != len(sent):
                return "endpoint down, spooling off: %d lines handed off, %d counted as connection-down" % (len(sent), ddown)
            if any(x in got for x in sent):
                return "lines were received by an endpoint that refuses connections"
    return None


def run(ctx):
    ctx.assumptions += ["PARTIAL: 'bounded time' is structural non-blocking in the model plus an observed latency; the Go scheduler, kernel TCP buffering and RST timing are not modelled",
                        "steady state = no connection change inside the phase (transitions between phases are unconstrained, as in the property)"]
    ctx.prepare()
    ctx.lean(["Crng.Props.C06"], ["Crng.Props.C06.every_handoff_accounted", "Crng.Props.C06.handoff_progress", "Crng.Props.C06.steady_healthy", "Crng.Props.C06.steady_down_nospool"],
             ties=["Crng.Tie.C06"])
    rnd = ctx.rng("c06")
    cases = [("e%d" % i, scenario(rnd, "e%d" % i)) for i in range(ctx.scale(14, 150))]
    ctx.stream("endpoints", "dest", cases, model=False, monitor=monitor, shrink=False, timeout=ctx.scale(400, 3600),
               classify=lambda l, o: l[0].split()[-1] + ("+recover" if any(x.startswith("up ") for x in l) else ""),
               nontrivial=lambda l, o: tuple(x for x in o if x.startswith(("phase", "drops"))))
