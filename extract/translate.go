// Go -> Lean translator for a small, explicit subset of Go (Tie A, second kind: the *code itself* of the listed
// functions is regenerated as Lean definitions, lean/Crng/Gen/Code*.lean, and lean/Crng/Tie/Code*.lean proves each of them
// equal, for all inputs, to a hand-written closed form the property statements are read from). DESIGN.md 12.9.
//
// Supported statements: if / else with init (a branch that only assigns becomes a tuple-valued if; a branch that falls
// through binds the rest once as a join point when no assigned variable is live, else the rest is duplicated), return (also
// bare, with named results), := and = (identifiers, tuples, a[i] = e, x.f = e, m[k] = v on declared maps, op=), ++/--,
// for-range over a slice (:= and = forms) with break / continue / return and assignments to outer variables, for init; cond;
// post loops (fuel-bounded whileP / whileR; optionally emitted as named definitions), switch with or without tag, type
// switch on PyVal, `v, ok := x.(T)`, labelled statements (and the extraction of one as a function of its own), call
// statements (declared effects become trace events, methods of other components splice the callee's trace, mutator / pop
// methods rebind a threaded object, Store on a field is an assignment), channel sends, `var x T`, defer of an ignored call.
// Expressions: identifiers, literals, unary / binary operators, calls (library functions of Crng.Code.Lib, methods,
// translated functions of the same package, function-valued parameters, conversions, append / make / copy / len,
// fmt.Errorf / errors.New as their format string, fmt.Sprintf with %d %f %.0f), selectors, package constants, index, 2- and
// 3-index slices, type assertions, unkeyed / keyed / empty composite literals, one-return function literals.
// State: package variables or a mutated receiver / parameter are threaded (returned after the results).
// "guards" mode: only the leading `if cond { return ..., err }` statements of a constructor.
// Anything else makes the function untranslatable: it is emitted as `def <name>_UNTRANSLATABLE : String := "<reason>"`
// and the tie module (which names the real definition) stops compiling.
//
// What the translation does NOT keep (trusted, stated in DESIGN): logging calls, fmt.Println and mutex operations are
// dropped, atomic.Value Load / type assertions to the static type / conversions between []byte and string / pointer
// operations are the identity, all Go integer types are unbounded Int, a slice is its list of elements (aliasing is C04's
// and C18's topic, modelled in Crng.GoSlice), an out-of-range index yields the default value (panics are C14's topic),
// evaluation order inside one expression is irrelevant because translated expressions are effect-free (effects are
// statements), one goroutine.
package main

import (
	"fmt"
	"go/ast"
	"go/token"
	"io/ioutil"
	"path/filepath"
	"sort"
	"strconv"
	"strings"
)

type trFunc struct {
	file      string // generated module Crng.Gen.<file>
	pkg, name string // package dir, Go name (Recv.Name)
	lean      string // Lean definition name
	pure      bool
	env       bool // takes the Env parameter
	state     []string // "name:LeanType": package-level variables the function reads/writes (threaded as parameters and
	// returned after the results), or "recv" for a receiver the method mutates (returned after the results)
	maps []string // identifiers that are Go maps (indexing is a lookup with the zero value as default)
	extract   string   // when set: translate only the statement carrying this label (a loop of the function), as a function of its
	// own whose parameters are `exParams` ("name:LeanType") - the variables of the enclosing function it reads
	exParams  []string
	loopTypes []string // when set: the k-th `for cond {}` loop's condition and body become top-level definitions
	// `<name>_cond<k>` / `<name>_body<k>` over the given Lean state type (so that the tie can state facts about them)
	fuel string   // Lean term (over the parameters) bounding the iterations of the function's `for cond {}` loops; the special
	// value "guards" translates only the leading `if cond { return ..., err }` statements of a constructor (its parameter
	// validation): the result is the error of the first guard that fires, none when all pass
}

var trList = []trFunc{
	{"CodeMatcher", "matcher", "Matcher.Match", "Matcher.Match", true, false, nil, nil, "", nil, nil, ""},
	{"CodeMatcher", "matcher", "Matcher.PreMatch", "Matcher.PreMatch", true, false, nil, nil, "", nil, nil, ""},
	{"CodeMatcher", "matcher", "Matcher.MatchRegexAndExpand", "Matcher.MatchRegexAndExpand", true, false, nil, nil, "", nil, nil, ""},
	{"CodeAgg", "aggregator", "Aggregator.AddMaybe", "Aggregator.AddMaybe", false, false, nil, nil, "", nil, nil, ""},
	{"CodeFilters", "destination", "Destination.Match", "Destination.Match", true, false, nil, nil, "", nil, nil, ""},
	{"CodeFilters", "route", "baseRoute.Match", "baseRoute.Match", true, false, nil, nil, "", nil, nil, ""},
	{"CodeRoute", "route", "metricName", "metricName", true, false, nil, nil, "", nil, nil, ""},
	{"CodeRoute", "route", "SendAllMatch.Dispatch", "SendAllMatch.Dispatch", false, false, nil, nil, "", nil, nil, ""},
	{"CodeRoute", "route", "SendFirstMatch.Dispatch", "SendFirstMatch.Dispatch", false, false, nil, nil, "", nil, nil, ""},
	{"CodeHasher", "destination", "addrInstanceSplit", "addrInstanceSplit", true, false, nil, nil, "", nil, nil, ""},
	{"CodeHasher", "route", "ConsistentHasher.GetDestinationIndex", "ConsistentHasher.GetDestinationIndex", true, true, nil, nil, "", nil, nil, ""},
	{"CodeHasher", "route", "ConsistentHashing.Dispatch", "ConsistentHashing.Dispatch", false, true, nil, nil, "", nil, nil, ""},
	{"CodeTable", "table", "Table.Dispatch", "Table.Dispatch", false, true, nil, nil, "", nil, nil, ""},
	{"CodeTable", "table", "Table.DispatchAggregate", "Table.DispatchAggregate", false, false, nil, nil, "", nil, nil, ""},
	{"CodeOrdered", "validate", "Ordered", "validate_Ordered", true, false, []string{"m:MapII", "h:Hasher64"}, []string{"m"}, "", nil, nil, ""},
	{"CodeKeepSafe", "destination", "keepSafe.Add", "keepSafe.Add", true, false, []string{"recv"}, nil, "", nil, nil, ""},
	{"CodeKeepSafe", "destination", "keepSafe.GetAll", "keepSafe.GetAll", true, false, []string{"recv"}, nil, "", nil, nil, ""},
	{"CodeRewriter", "rewriter", "RW.Do", "RW.Do", true, false, nil, nil, "", nil, nil, ""},
	{"CodeRewriter", "rewriter", "New", "rewriter_New", true, true, nil, nil, "", nil, nil, ""},
	{"CodeTableOps", "table", "Table.AddRoute", "Table.AddRoute", true, false, []string{"recv"}, nil, "", nil, nil, ""},
	{"CodeTableOps", "table", "Table.AddBlacklist", "Table.AddBlacklist", true, false, []string{"recv"}, nil, "", nil, nil, ""},
	{"CodeTableOps", "table", "Table.AddAggregator", "Table.AddAggregator", true, false, []string{"recv"}, nil, "", nil, nil, ""},
	{"CodeTableOps", "table", "Table.AddRewriter", "Table.AddRewriter", true, false, []string{"recv"}, nil, "", nil, nil, ""},
	{"CodeTableOps", "table", "Table.DelBlacklist", "Table.DelBlacklist", true, false, []string{"recv"}, nil, "", nil, nil, ""},
	{"CodeTableOps", "table", "Table.DelRewriter", "Table.DelRewriter", true, false, []string{"recv"}, nil, "", nil, nil, ""},
	{"CodeTableOps", "table", "Table.DelAggregator", "Table.DelAggregator", false, false, []string{"recv"}, nil, "", nil, nil, ""},
	{"CodeTableOps", "table", "Table.DelRoute", "Table.DelRoute", false, false, []string{"recv"}, nil, "", nil, nil, ""},
	{"CodeRouteOps", "route", "baseRoute.addDestination", "baseRoute.addDestination", false, false, []string{"recv"}, nil, "", nil, nil, ""},
	{"CodeRouteOps", "route", "baseRoute.delDestination", "baseRoute.delDestination", false, false, []string{"recv"}, nil, "", nil, nil, ""},
	{"CodeGuards", "destination", "New", "destination_New_guards", true, false, nil, nil, "", nil, nil, "guards"},
	{"CodeGuards", "route", "NewGrafanaNet", "NewGrafanaNet_guards", true, false, nil, nil, "", nil, nil, "guards"},
	{"CodeCfg", "cfg", "InitAggregation", "InitAggregation", false, true, nil, nil, "", nil, nil, ""},
	{"CodeCfg", "cfg", "InitBlacklist", "InitBlacklist", false, true, nil, nil, "", nil, nil, ""},
	{"CodeCfg", "cfg", "InitRewrite", "InitRewrite", false, true, nil, nil, "", nil, nil, ""},
	{"CodeReadAgg", "imperatives", "readAddAgg", "readAddAgg", false, true, []string{"param:s"}, nil, "", nil, []string{"Crng.CodeSpecAgg.T1", "Crng.CodeSpecAgg.T2"}, "(s.toks.length + 2)"},
	{"CodeReadSmall", "imperatives", "readAddBlack", "readAddBlack", false, true, []string{"param:s"}, nil, "", nil, nil, ""},
	{"CodeReadSmall", "imperatives", "readAddRewriter", "readAddRewriter", false, true, []string{"param:s"}, nil, "", nil, nil, ""},
	{"CodeReadSmall", "imperatives", "readRouteOpts", "readRouteOpts", true, false, []string{"param:s"}, nil, "", nil, []string{"Crng.CodeSpecAgg.T3"}, "(s.toks.length + 2)"},
	{"CodePickleItems", "input", "Pickle.Handle", "Pickle_Handle_items", false, false, nil, nil, "ItemLoop", []string{"p:PickleP", "decoded:List PyVal"}, nil, ""},
	{"CodeReadDest", "imperatives", "readDestination", "readDestination", true, true, []string{"param:s"}, nil, "", nil, nil, "(s.toks.length + 2)"},
}

// generated modules that import another generated module (a translated function calling a translated method)
// hand-written modules (state types of named loops) a generated module imports
var trSpecImports = map[string][]string{"CodeReadAgg": {"Crng.CodeSpecAgg"}, "CodeReadSmall": {"Crng.CodeSpecAgg"}}

var trImports = map[string][]string{"CodeAgg": {"CodeMatcher"}, "CodeFilters": {"CodeMatcher"}}

var leanTypes = map[string]string{
	"[]byte": "Bytes", "string": "Bytes", "[][]byte": "List Bytes", "bool": "Bool", "int": "Int", "uint32": "Int", "int64": "Int",
	"uint16": "Int", "uint": "Int", "float64": "F64", "error": "Err",
	"*Matcher": "Matcher", "Matcher": "Matcher", "*Table": "Table", "*SendAllMatch": "SendAllMatch", "*SendFirstMatch": "SendFirstMatch",
	"*Destination": "Destination", "*baseRoute": "baseRoute", "*dest.Destination": "DestI", "baseCfgExtender": "(Matcher × List DestI → BaseConfig)", "*ConsistentHasher": "ConsistentHasher", "*ConsistentHashing": "ConsistentHashing", "*Aggregator": "Aggregator", "*keepSafe": "keepSafe", "RW": "RW",
	"time.Duration": "Int", "matcher.Matcher": "MatcherArgs", "GrafanaNetConfig": "GrafanaNetConfig",
	"*regexp.Regexp": "Option RegexpI", "Config": "Config", "[]interface{}": "List PyVal", "*Pickle": "PickleP",
	"*toki.Scanner": "Scanner", "*toki.Result": "TokV", "table.Interface": "TableI", "*destination.Destination": "DestP",
	"route.Route": "RouteI", "*matcher.Matcher": "MatcherI", "*aggregator.Aggregator": "AggregatorI", "rewriter.RW": "RewriterI",
}

// calls that are dropped (no effect on any modelled observable)
func ignoredCall(s string) bool {
	if strings.HasPrefix(s, "log.") || s == "fmt.Println" || s == "fmt.Printf" {
		return true
	}
	for _, suf := range []string{".Lock", ".Unlock", ".RLock", ".RUnlock"} {
		if strings.HasSuffix(s, suf) {
			return true
		}
	}
	return false
}

// methods whose call is an event of the trace
var effectMethods = map[string]bool{"Run": true, "IncNumInvalid": true, "Inc": true, "Add": true, "AddAggregator": true, "AddBlacklist": true, "AddRewriter": true}

// methods of another component that have effects of their own: the callee's trace is spliced in (the interface record
// gives them the type `... -> Res value`)
var spliceMethods = map[string]bool{"Dispatch": true, "AddMaybe": true, "Shutdown": true}

// methods that change their receiver (a local or threaded variable): `x.M(args)` as a statement is `x := x.M args`
var mutatorMethods = map[string]bool{"Write": true, "Reset": true}

// translated methods that take the Env parameter
var envMethods = map[string]bool{"GetDestinationIndex": true}

var libFuncs = map[string]string{
	"bytes.HasPrefix": "Lib.bytes_HasPrefix", "bytes.Contains": "Lib.bytes_Contains", "bytes.IndexByte": "Lib.bytes_IndexByte",
	"bytes.Fields": "Lib.bytes_Fields", "bytes.Join": "Lib.bytes_Join", "sort.Search": "Lib.sort_Search", "len": "Lib.len", "bytes.Replace": "Lib.bytes_Replace", "strings.SplitN": "Lib.strings_SplitN",
	"strings.Count": "Lib.strings_Count", "strings.Split": "Lib.strings_Split", "strings.Join": "Lib.strings_Join",
}
var identityCalls = map[string]bool{"[]interface{}": true, "[]byte": true, "string": true, "int": true, "uint32": true, "int64": true, "uint16": true, "uint": true, "time.Duration": true}

// methods of a threaded object that yield a value and advance the object: `x := s.Next()` is `(x, s) := s.Next`
var popMethods = map[string]bool{"Next": true}
var identityMethods = map[string]bool{"Load": true}
var leanKeywords = map[string]bool{"prefix": true, "match": true, "end": true, "at": true, "from": true, "fun": true, "do": true, "then": true,
	"in": true, "open": true, "meta": true, "matches": true, "instance": true, "structure": true, "where": true, "have": true, "show": true,
	"let": true, "if": true, "else": true, "by": true, "def": true, "theorem": true, "section": true, "namespace": true, "infix": true,
	"postfix": true, "notation": true, "macro": true, "syntax": true, "local": true, "public": true, "private": true, "mutual": true,
	"class": true, "deriving": true, "extends": true, "with": true, "Type": true, "Prop": true, "Sort": true, "universe": true,
	"variable": true, "import": true, "export": true, "using": true, "calc": true, "nomatch": true, "return": true, "for": true,
	"unless": true, "try": true, "catch": true, "finally": true, "mut": true, "break": true, "continue": true, "final": false}

func lid(s string) string {
	if leanKeywords[s] {
		return s + "_"
	}
	return s
}

type trErr struct{ msg string }

func fail(format string, a ...interface{}) { panic(trErr{fmt.Sprintf(format, a...)}) }

type trCtx struct {
	f        trFunc
	pkgFns   map[string]string // Go function name of the same package -> lean name (translated)
	ret      func(string) string // return of a value tuple (the threaded state is appended by `full`)
	retFull  func(string) string // return of an already complete tuple
	full     func(string) string
	brk      string // term for break ("" outside loops)
	cont     string // term for continue / end of loop body
	fall     string // term when the statement list ends
	declared map[string]bool
	nres     int
	njoin    int
	namedRes []string
	varTypes map[string]string // Lean types of variables declared with `var x T`
	preDefs  *[]string
	nloop    *int
	rtFull   string
}

func (c *trCtx) isMap(n string) bool {
	for _, m := range c.f.maps {
		if m == n {
			return true
		}
	}
	return false
}

func (c *trCtx) pureWrap(s string) string {
	if c.f.pure {
		return s
	}
	return "Res.pure " + par(s)
}

func par(s string) string {
	if s == "" {
		return "()"
	}
	simple := true
	for _, r := range s {
		if !(r == '_' || r == '.' || r == '\'' || (r >= '0' && r <= '9') || (r >= 'a' && r <= 'z') || (r >= 'A' && r <= 'Z')) {
			simple = false
			break
		}
	}
	if simple || (strings.HasPrefix(s, "(") && strings.HasSuffix(s, ")") && balancedOuter(s)) {
		return s
	}
	return "(" + s + ")"
}

func balancedOuter(s string) bool {
	d := 0
	for i, r := range s {
		if r == '(' {
			d++
		} else if r == ')' {
			d--
			if d == 0 && i != len(s)-1 {
				return false
			}
		}
	}
	return d == 0
}

func tuple(xs []string) string {
	if len(xs) == 0 {
		return "()"
	}
	if len(xs) == 1 {
		return xs[0]
	}
	return "(" + strings.Join(xs, ", ") + ")"
}

// ---------------------------------------------------------------- expressions

func (c *trCtx) expr(e ast.Expr) string {
	switch x := e.(type) {
	case *ast.Ident:
		switch x.Name {
		case "nil":
			return "none"
		case "true", "false":
			return x.Name
		}
		return lid(x.Name)
	case *ast.BasicLit:
		switch x.Kind {
		case token.INT:
			return x.Value
		case token.CHAR:
			v := x.Value
			if len(v) == 3 {
				return fmt.Sprintf("(%d : UInt8)", v[1])
			}
			fail("char literal %s", v)
		case token.STRING:
			u, err := strconv.Unquote(x.Value)
			if err != nil {
				fail("string literal %s", x.Value)
			}
			var bs []string
			for _, b := range []byte(u) {
				bs = append(bs, fmt.Sprintf("%d", b))
			}
			return "([" + strings.Join(bs, ", ") + "] : Bytes)"
		}
		fail("literal %s", x.Value)
	case *ast.ParenExpr:
		return "(" + c.expr(x.X) + ")"
	case *ast.StarExpr:
		return c.expr(x.X)
	case *ast.TypeAssertExpr:
		if x.Type != nil {
			if fn, ok := typeTests[src(x.Type)]; ok {
				return "(Lib." + fn + " " + par(c.expr(x.X)) + ").1" // single-value assertion (guarded by a type switch in the code)
			}
		}
		return c.expr(x.X)
	case *ast.UnaryExpr:
		switch x.Op {
		case token.NOT:
			return "!" + par(c.expr(x.X))
		case token.SUB:
			return "-" + par(c.expr(x.X))
		case token.AND:
			return c.expr(x.X)
		}
		fail("unary %s", x.Op)
	case *ast.BinaryExpr:
		// comparisons with nil
		if id, ok := x.Y.(*ast.Ident); ok && id.Name == "nil" {
			if x.Op == token.NEQ {
				return "Lib.notNil " + par(c.expr(x.X))
			}
			if x.Op == token.EQL {
				return "Lib.isNil " + par(c.expr(x.X))
			}
		}
		l, r := par(c.expr(x.X)), par(c.expr(x.Y))
		switch x.Op {
		case token.LAND:
			return "(" + l + " && " + r + ")"
		case token.LOR:
			return "(" + l + " || " + r + ")"
		case token.EQL:
			return "(" + l + " == " + r + ")"
		case token.NEQ:
			return "(" + l + " != " + r + ")"
		case token.LSS:
			return "decide (" + l + " < " + r + ")"
		case token.LEQ:
			return "decide (" + l + " ≤ " + r + ")"
		case token.GTR:
			return "decide (" + l + " > " + r + ")"
		case token.GEQ:
			return "decide (" + l + " ≥ " + r + ")"
		case token.ADD:
			return "(" + l + " + " + r + ")"
		case token.SUB:
			return "(" + l + " - " + r + ")"
		case token.MUL:
			return "(" + l + " * " + r + ")"
		case token.REM:
			return "Lib.goMod " + l + " " + r
		case token.QUO:
			return "Lib.goDiv " + l + " " + r
		}
		fail("binary %s", x.Op)
	case *ast.SelectorExpr:
		if id, ok := x.X.(*ast.Ident); ok && isPkgName(id.Name) && !c.declared[id.Name] {
			// a constant of another package (time.Second, toki.EOF): declared in the prelude
			return id.Name + "_" + x.Sel.Name
		}
		return par(c.expr(x.X)) + "." + lid(x.Sel.Name)
	case *ast.IndexExpr:
		if id, ok := x.X.(*ast.Ident); ok && c.isMap(id.Name) {
			return "Lib.mapGet " + lid(id.Name) + " " + par(c.expr(x.Index))
		}
		return "Lib.idx " + par(c.expr(x.X)) + " " + par(c.expr(x.Index))
	case *ast.SliceExpr:
		// a[l:h:m]: the capacity limit does not change the elements
		b := par(c.expr(x.X))
		switch {
		case x.Low == nil && x.High == nil:
			return b
		case x.Low == nil:
			return "Lib.sliceTo " + b + " " + par(c.expr(x.High))
		case x.High == nil:
			return "Lib.sliceFrom " + b + " " + par(c.expr(x.Low))
		default:
			return "Lib.slice " + b + " " + par(c.expr(x.Low)) + " " + par(c.expr(x.High))
		}
	case *ast.FuncLit:
		if len(x.Body.List) == 1 {
			if rs, ok := x.Body.List[0].(*ast.ReturnStmt); ok && len(rs.Results) == 1 {
				var ps []string
				for _, p := range x.Type.Params.List {
					t, ok := leanTypes[src(p.Type)]
					if !ok {
						fail("function literal parameter type %s", src(p.Type))
					}
					for _, n := range p.Names {
						ps = append(ps, "("+lid(n.Name)+" : "+t+")")
					}
				}
				return "(fun " + strings.Join(ps, " ") + " => " + c.expr(rs.Results[0]) + ")"
			}
		}
		fail("function literal that is not a single return")
	case *ast.CallExpr:
		return c.call(x)
	case *ast.CompositeLit:
		if len(x.Elts) == 0 {
			t, ok := leanTypes[src(x.Type)]
			if !ok {
				fail("empty composite literal of type %s", src(x.Type))
			}
			return "(default : " + t + ")"
		}
		if _, ok := x.Elts[0].(*ast.KeyValueExpr); ok {
			// a keyed struct literal is a structure instance of the mapped type
			t, ok := leanTypes[src(x.Type)]
			if !ok {
				fail("composite literal of type %s", src(x.Type))
			}
			var fs []string
			for _, el := range x.Elts {
				kv, ok := el.(*ast.KeyValueExpr)
				if !ok {
					fail("mixed composite literal %s", src(x))
				}
				fs = append(fs, lid(src(kv.Key))+" := "+c.expr(kv.Value))
			}
			return "({ " + strings.Join(fs, ", ") + " } : " + t + ")"
		}
		// an unkeyed struct literal is the tuple of its fields
		var es []string
		for _, el := range x.Elts {
			if _, ok := el.(*ast.KeyValueExpr); ok {
				fail("keyed composite literal %s", src(x))
			}
			es = append(es, c.expr(el))
		}
		return tuple(es)
	}
	fail("expression %T (%s)", e, src(e))
	return ""
}

func (c *trCtx) args(xs []ast.Expr) string {
	var out []string
	for _, a := range xs {
		out = append(out, par(c.expr(a)))
	}
	return strings.Join(out, " ")
}

func (c *trCtx) call(x *ast.CallExpr) string {
	fn := src(x.Fun)
	if identityCalls[fn] && len(x.Args) == 1 {
		return c.expr(x.Args[0])
	}
	if fn == "make" && len(x.Args) == 2 && src(x.Args[0]) == "[]byte" {
		return "Lib.makeBytes " + par(c.expr(x.Args[1]))
	}
	if fn == "fmt.Sprintf" && len(x.Args) == 2 {
		if bl, ok := x.Args[0].(*ast.BasicLit); ok {
			names := map[string]string{"\"%d\"": "p.fmt.d", "\"%f\"": "p.fmt.f", "\"%.0f\"": "p.fmt.f0"}
			if fnm, ok := names[bl.Value]; ok {
				return fnm + " " + par(c.expr(x.Args[1]))
			}
		}
		fail("fmt.Sprintf with format %s", src(x.Args[0]))
	}
	if (fn == "fmt.Errorf" || fn == "errors.New") && len(x.Args) >= 1 {
		// an error value: its format string (arguments are not rendered)
		if bl, ok := x.Args[0].(*ast.BasicLit); ok && bl.Kind == token.STRING {
			return "(some " + bl.Value + " : Err)"
		}
		fail("error with a non-literal format")
	}
	if fn == "make" && (len(x.Args) == 2 || len(x.Args) == 3) && strings.HasPrefix(src(x.Args[0]), "[]") && src(x.Args[1]) == "0" {
		return "[]"
	}
	if fn == "append" && len(x.Args) >= 2 {
		out := par(c.expr(x.Args[0]))
		if x.Ellipsis.IsValid() {
			if len(x.Args) != 2 {
				fail("append with ... and several arguments")
			}
			return "(" + out + " ++ " + par(c.expr(x.Args[1])) + ")"
		}
		var es []string
		for _, a := range x.Args[1:] {
			es = append(es, c.expr(a))
		}
		return "(" + out + " ++ [" + strings.Join(es, ", ") + "])"
	}
	if l, ok := libFuncs[fn]; ok {
		return l + " " + c.args(x.Args)
	}
	switch f := x.Fun.(type) {
	case *ast.Ident:
		if l, ok := c.pkgFns[f.Name]; ok {
			return l + " " + c.args(x.Args)
		}
		if c.declared[f.Name] {
			// a function-valued parameter
			return lid(f.Name) + " " + c.args(x.Args)
		}
		// an untranslated function of the same package: a field of Env
		if !c.f.env {
			fail("call of %s needs the Env parameter", f.Name)
		}
		return "E." + lid(f.Name) + " " + c.args(x.Args)
	case *ast.SelectorExpr:
		if id, ok := f.X.(*ast.Ident); ok && isPkgName(id.Name) && !c.declared[id.Name] {
			if !c.f.env {
				fail("call of %s needs the Env parameter", fn)
			}
			return "E." + id.Name + "_" + f.Sel.Name + " " + c.args(x.Args)
		}
		if identityMethods[f.Sel.Name] && len(x.Args) == 0 {
			return c.expr(f.X)
		}
		recv := par(c.expr(f.X))
		if envMethods[f.Sel.Name] {
			if !c.f.env {
				fail("call of %s needs the Env parameter", fn)
			}
			return recv + "." + lid(f.Sel.Name) + " E " + c.args(x.Args)
		}
		if len(x.Args) == 0 {
			return recv + "." + lid(f.Sel.Name)
		}
		return recv + "." + lid(f.Sel.Name) + " " + c.args(x.Args)
	}
	fail("call %s", fn)
	return ""
}

var pkgNames = map[string]bool{"aggregator": true, "rewriter": true, "toki": true, "matcher": true, "destination": true, "errors": true, "m20": true, "validate": true, "bytes": true, "sort": true, "strings": true, "fmt": true, "time": true,
	"atomic": true, "regexp": true, "strconv": true, "math": true, "os": true, "sync": true}

func isPkgName(s string) bool { return pkgNames[s] }

// ---------------------------------------------------------------- statements

func terminates(list []ast.Stmt) bool {
	if len(list) == 0 {
		return false
	}
	switch s := list[len(list)-1].(type) {
	case *ast.ReturnStmt:
		return true
	case *ast.BranchStmt:
		return s.Tok == token.BREAK || s.Tok == token.CONTINUE
	case *ast.IfStmt:
		if s.Else == nil {
			return false
		}
		if !terminates(s.Body.List) {
			return false
		}
		switch e := s.Else.(type) {
		case *ast.BlockStmt:
			return terminates(e.List)
		case *ast.IfStmt:
			return terminates([]ast.Stmt{e})
		}
	case *ast.BlockStmt:
		return terminates(s.List)
	}
	return false
}

// event for a call statement
func (c *trCtx) event(name string, recv ast.Expr, args []ast.Expr) string {
	r := "0"
	if id, ok := recv.(*ast.Ident); ok {
		r = lid(id.Name) + ".id"
		name = id.Name + "." + name
	} else if recv != nil {
		name = src(recv) + "." + name
	}
	var as []string
	for _, a := range args {
		if bl, ok := a.(*ast.BasicLit); ok && bl.Kind == token.INT {
			as = append(as, "arg ("+bl.Value+" : Int)")
			continue
		}
		as = append(as, "arg "+par(c.expr(a)))
	}
	return fmt.Sprintf("Ev.call %q %s [%s]", name, r, strings.Join(as, ", "))
}

func (c *trCtx) effectCall(x *ast.CallExpr) (string, bool) {
	if se, ok := x.Fun.(*ast.SelectorExpr); ok && effectMethods[se.Sel.Name] {
		if id, ok := se.X.(*ast.Ident); ok && isPkgName(id.Name) {
			return "", false
		}
		return c.event(se.Sel.Name, se.X, x.Args), true
	}
	return "", false
}

// assigned outer variables of a loop body
func assignedIn(list []ast.Stmt, out map[string]bool) {
	for _, s := range list {
		ast.Inspect(s, func(n ast.Node) bool {
			switch a := n.(type) {
			case *ast.AssignStmt:
				for _, l := range a.Lhs {
					base := l
					for {
						switch b := base.(type) {
						case *ast.IndexExpr:
							base = b.X
							continue
						case *ast.SelectorExpr:
							base = b.X
							continue
						}
						break
					}
					if id, ok := base.(*ast.Ident); ok && id.Name != "_" {
						if a.Tok != token.DEFINE || l != base {
							out[id.Name] = true
						}
					}
				}
			case *ast.IncDecStmt:
				if id, ok := a.X.(*ast.Ident); ok {
					out[id.Name] = true
				}
			}
			return true
		})
	}
}

// objects advanced by pop / mutator methods count as assigned
func assignedWithPops(list []ast.Stmt, out map[string]bool) {
	assignedIn(list, out)
	for _, st := range list {
		if st == nil {
			continue
		}
		ast.Inspect(st, func(n ast.Node) bool {
			if call, ok := n.(*ast.CallExpr); ok {
				if se, ok := call.Fun.(*ast.SelectorExpr); ok && (popMethods[se.Sel.Name] || mutatorMethods[se.Sel.Name]) {
					if id, ok := se.X.(*ast.Ident); ok {
						out[id.Name] = true
					}
				}
			}
			return true
		})
	}
}

// a block of plain assignments (no return / branch / effects / nested control flow)
func assignOnly(list []ast.Stmt) bool {
	for _, st := range list {
		switch x := st.(type) {
		case *ast.AssignStmt:
			if x.Tok == token.DEFINE {
				return false
			}
			for _, r := range x.Rhs {
				if call, ok := r.(*ast.CallExpr); ok {
					if se, ok := call.Fun.(*ast.SelectorExpr); ok && spliceMethods[se.Sel.Name] {
						return false
					}
				}
			}
		case *ast.IncDecStmt:
		default:
			return false
		}
	}
	return true
}

func (c *trCtx) clone() *trCtx {
	d := *c
	d.varTypes = map[string]string{}
	for k, v := range c.varTypes {
		d.varTypes[k] = v
	}
	d.declared = map[string]bool{}
	for k := range c.declared {
		d.declared[k] = true
	}
	return &d
}

func (c *trCtx) assignTo(lhs ast.Expr, rhs string, tok token.Token) string {
	switch l := lhs.(type) {
	case *ast.Ident:
		if l.Name == "_" {
			return "let _ := " + rhs
		}
		c.declared[l.Name] = true
		return "let " + lid(l.Name) + " := " + rhs
	case *ast.IndexExpr:
		if id, ok := l.X.(*ast.Ident); ok && c.isMap(id.Name) {
			return "let " + lid(id.Name) + " := Lib.mapSet " + lid(id.Name) + " " + par(c.expr(l.Index)) + " " + par(rhs)
		}
		if id, ok := l.X.(*ast.Ident); ok {
			return "let " + lid(id.Name) + " := Lib.set " + lid(id.Name) + " " + par(c.expr(l.Index)) + " " + par(rhs)
		}
	case *ast.SelectorExpr:
		if id, ok := l.X.(*ast.Ident); ok {
			return "let " + lid(id.Name) + " := { " + lid(id.Name) + " with " + lid(l.Sel.Name) + " := " + rhs + " }"
		}
	}
	fail("assignment target %s", src(lhs))
	return ""
}

func (c *trCtx) stmts(list []ast.Stmt, ind string) string {
	if len(list) == 0 {
		return c.fall
	}
	s, rest := list[0], list[1:]
	nl := "\n" + ind
	switch x := s.(type) {
	case *ast.EmptyStmt:
		return c.stmts(rest, ind)
	case *ast.BlockStmt:
		return c.stmts(append(append([]ast.Stmt{}, x.List...), rest...), ind)
	case *ast.ReturnStmt:
		if len(x.Results) == 0 && c.nres > 0 {
			if len(c.namedRes) != c.nres {
				fail("bare return in a function with unnamed results")
			}
			var ns []string
			for _, n := range c.namedRes {
				ns = append(ns, lid(n))
			}
			return c.ret(tuple(ns))
		}
		if len(x.Results) == 1 && c.nres > 1 {
			// `return f(...)` where f yields all the results
			var ns []string
			for i := 0; i < c.nres; i++ {
				ns = append(ns, fmt.Sprintf("r%d_", i))
			}
			return "let " + tuple(ns) + " := " + c.expr(x.Results[0]) + nl + c.ret(tuple(ns))
		}
		var rs []string
		for _, r := range x.Results {
			rs = append(rs, c.expr(r))
		}
		return c.ret(tuple(rs))
	case *ast.BranchStmt:
		if x.Tok == token.BREAK && c.brk != "" {
			return c.brk
		}
		if x.Tok == token.CONTINUE && c.cont != "" {
			return c.cont
		}
		fail("branch %s", x.Tok)
	case *ast.ExprStmt:
		call, ok := x.X.(*ast.CallExpr)
		if !ok {
			fail("expression statement %s", src(x.X))
		}
		fn := src(call.Fun)
		if ignoredCall(fn) {
			return c.stmts(rest, ind)
		}
		if se, ok := call.Fun.(*ast.SelectorExpr); ok && mutatorMethods[se.Sel.Name] {
			if id, ok := se.X.(*ast.Ident); ok && c.declared[id.Name] {
				return c.assignTo(se.X, c.call(call), token.ASSIGN) + nl + c.stmts(rest, ind)
			}
		}
		if se, ok := call.Fun.(*ast.SelectorExpr); ok && se.Sel.Name == "Store" && len(call.Args) == 1 {
			// atomic.Value.Store on a field of a threaded object
			return c.assignTo(se.X, c.expr(call.Args[0]), token.ASSIGN) + nl + c.stmts(rest, ind)
		}
		if fn == "copy" && len(call.Args) == 2 {
			return c.assignTo(call.Args[0], "Lib.copy "+par(c.expr(call.Args[0]))+" "+par(c.expr(call.Args[1])), token.ASSIGN) + nl + c.stmts(rest, ind)
		}
		if se, ok := call.Fun.(*ast.SelectorExpr); ok && spliceMethods[se.Sel.Name] {
			if c.f.pure {
				fail("effectful call %s in a function declared pure", fn)
			}
			return "Res.bind (" + c.call(call) + ") fun _ =>" + nl + c.stmts(rest, ind)
		}
		if ev, ok := c.effectCall(call); ok {
			if c.f.pure {
				fail("effect %s in a function declared pure", fn)
			}
			return "emit (" + ev + ") <|" + nl + c.stmts(rest, ind)
		}
		fail("call statement %s is neither a declared effect nor ignorable", fn)
	case *ast.DeferStmt:
		if ignoredCall(src(x.Call.Fun)) {
			return c.stmts(rest, ind)
		}
		fail("defer %s", src(x.Call.Fun))
	case *ast.SendStmt:
		if c.f.pure {
			fail("channel send in a function declared pure")
		}
		se, ok := x.Chan.(*ast.SelectorExpr)
		if !ok {
			fail("send on %s", src(x.Chan))
		}
		return "emit (" + c.event(se.Sel.Name+"<-", se.X, []ast.Expr{x.Value}) + ") <|" + nl + c.stmts(rest, ind)
	case *ast.IncDecStmt:
		op := " + 1"
		if x.Tok == token.DEC {
			op = " - 1"
		}
		return c.assignTo(x.X, c.expr(x.X)+op, token.ASSIGN) + nl + c.stmts(rest, ind)
	case *ast.DeclStmt:
		gd, ok := x.Decl.(*ast.GenDecl)
		if !ok || gd.Tok != token.VAR {
			fail("declaration %s", src(x))
		}
		out := ""
		for _, sp := range gd.Specs {
			vs := sp.(*ast.ValueSpec)
			for i, n := range vs.Names {
				if i < len(vs.Values) {
					out += "let " + lid(n.Name) + " := " + c.expr(vs.Values[i]) + nl
				} else {
					t, ok := leanTypes[src(vs.Type)]
					if !ok {
						fail("var of type %s", src(vs.Type))
					}
					c.varTypes[n.Name] = t
					out += "let " + lid(n.Name) + " : " + t + " := default" + nl
				}
				c.declared[n.Name] = true
			}
		}
		return out + c.stmts(rest, ind)
	case *ast.AssignStmt:
		// `t := s.Next()` / `t = s.Next()` on a threaded object
		if len(x.Rhs) == 1 && len(x.Lhs) == 1 {
			if call, ok := x.Rhs[0].(*ast.CallExpr); ok {
				if se, ok := call.Fun.(*ast.SelectorExpr); ok && popMethods[se.Sel.Name] && len(call.Args) == 0 {
					if obj, ok := se.X.(*ast.Ident); ok && c.declared[obj.Name] {
						if id, ok := x.Lhs[0].(*ast.Ident); ok {
							c.declared[id.Name] = true
							return "let (" + lid(id.Name) + ", " + lid(obj.Name) + ") := " + lid(obj.Name) + "." + lid(se.Sel.Name) + nl + c.stmts(rest, ind)
						}
					}
				}
			}
		}
		pre := ""
		// a call with effects of its own on the right-hand side: bind its value
		if len(x.Rhs) == 1 {
			if call, ok := x.Rhs[0].(*ast.CallExpr); ok {
				if se, ok := call.Fun.(*ast.SelectorExpr); ok && spliceMethods[se.Sel.Name] {
					if c.f.pure {
						fail("effectful call %s in a function declared pure", src(call.Fun))
					}
					var names []string
					for _, l := range x.Lhs {
						id, ok := l.(*ast.Ident)
						if !ok {
							fail("assignment of an effectful call to %s", src(l))
						}
						if id.Name != "_" {
							c.declared[id.Name] = true
						}
						names = append(names, lid(id.Name))
					}
					return "Res.bind (" + c.call(call) + ") fun " + tuple(names) + " =>" + nl + c.stmts(rest, ind)
				}
			}
		}
		if x.Tok != token.DEFINE && x.Tok != token.ASSIGN {
			ops := map[token.Token]token.Token{token.ADD_ASSIGN: token.ADD, token.SUB_ASSIGN: token.SUB, token.MUL_ASSIGN: token.MUL}
			op, ok := ops[x.Tok]
			if !ok || len(x.Lhs) != 1 {
				fail("assignment operator %s", x.Tok)
			}
			rhs := c.expr(&ast.BinaryExpr{X: x.Lhs[0], Op: op, Y: x.Rhs[0]})
			return c.assignTo(x.Lhs[0], rhs, token.ASSIGN) + nl + c.stmts(rest, ind)
		}
		if len(x.Lhs) == len(x.Rhs) {
			if len(x.Lhs) == 1 {
				rhs := c.expr(x.Rhs[0])
				return pre + c.assignTo(x.Lhs[0], rhs, x.Tok) + nl + c.stmts(rest, ind)
			}
			// parallel assignment: evaluate all right-hand sides first
			out := ""
			var tmps []string
			for i, r := range x.Rhs {
				t := fmt.Sprintf("tmp%d_", i)
				tmps = append(tmps, t)
				out += "let " + t + " := " + c.expr(r) + nl
			}
			for i, l := range x.Lhs {
				out += c.assignTo(l, tmps[i], x.Tok) + nl
			}
			return out + c.stmts(rest, ind)
		}
		if len(x.Rhs) == 1 {
			// `v, ok := x.(T)`
		if ta, isTA := x.Rhs[0].(*ast.TypeAssertExpr); isTA && len(x.Lhs) == 2 && ta.Type != nil {
			fn, ok := typeTests[src(ta.Type)]
			if !ok {
				fail("type assertion to %s", src(ta.Type))
			}
			var names []string
			for _, l := range x.Lhs {
				id := l.(*ast.Ident)
				if id.Name != "_" {
					c.declared[id.Name] = true
				}
				names = append(names, lid(id.Name))
			}
			return "let " + tuple(names) + " := Lib." + fn + " " + par(c.expr(ta.X)) + nl + c.stmts(rest, ind)
		}
		rhs := c.expr(x.Rhs[0]) // before the left-hand names come into scope (`matcher, err := matcher.New(...)`)
			var names []string
			for _, l := range x.Lhs {
				id, ok := l.(*ast.Ident)
				if !ok {
					fail("tuple assignment to %s", src(l))
				}
				if id.Name == "_" {
					names = append(names, "_")
				} else {
					c.declared[id.Name] = true
					names = append(names, lid(id.Name))
				}
			}
			return pre + "let " + tuple(names) + " := " + rhs + nl + c.stmts(rest, ind)
		}
		fail("assignment %s", src(x))
	case *ast.IfStmt:
		if x.Init != nil {
			// the init statement's variables are scoped to the if statement; a later use of the same name would see the
			// inner one here, so refuse when the rest mentions a name the init declares
			if as, ok := x.Init.(*ast.AssignStmt); ok && as.Tok == token.DEFINE {
				for _, l := range as.Lhs {
					if id, ok := l.(*ast.Ident); ok && id.Name != "_" && c.declared[id.Name] {
						fail("if-init shadows %s", id.Name)
					}
					if id, ok := l.(*ast.Ident); ok && id.Name != "_" && mentions(rest, id.Name) {
						fail("name %s of an if-init is used after the statement", id.Name)
					}
				}
			}
			y := *x
			y.Init = nil
			return c.stmts(append([]ast.Stmt{x.Init, &y}, rest...), ind)
		}
		cond := c.expr(x.Cond)
		var elseList []ast.Stmt
		if x.Else != nil {
			switch e := x.Else.(type) {
			case *ast.BlockStmt:
				elseList = e.List
			default:
				elseList = []ast.Stmt{e}
			}
		}
		thenList := x.Body.List
		c1, c2 := c.clone(), c.clone()
		var t1, t2 string
		// branches that only assign: the statement is the tuple of the assigned variables, chosen by the condition
		if len(rest) > 0 && len(thenList) > 0 && assignOnly(thenList) && assignOnly(elseList) {
			as := map[string]bool{}
			assignedWithPops(thenList, as)
			assignedWithPops(elseList, as)
			var vs []string
			for n := range as {
				if c.declared[n] {
					vs = append(vs, n)
				}
			}
			sort.Strings(vs)
			if len(vs) > 0 {
				var vl []string
				for _, n := range vs {
					vl = append(vl, lid(n))
				}
				tup := tuple(vl)
				ca, cb := c.clone(), c.clone()
				ca.fall, cb.fall = tup, tup
				ta := ca.stmts(thenList, ind+"    ")
				tb := cb.stmts(elseList, ind+"    ")
				return "let " + tup + " :=" + nl + "  if " + cond + " then" + nl + "    " + ta + nl + "  else" + nl + "    " + tb + nl + c.stmts(rest, ind)
			}
		}
		// join point: when a branch falls through into a non-trivial rest and no variable assigned in the branches is
		// read afterwards, the rest is bound once as a thunk; otherwise it is duplicated into the branches
		pre := ""
		if len(rest) > 1 && !terminates(thenList) && !terminates(elseList) {
			as := map[string]bool{}
			assignedIn(thenList, as)
			assignedIn(elseList, as)
			live := false
			for n := range as {
				if c.declared[n] && mentions(rest, n) {
					live = true
				}
			}
			if !live {
				checkNoShadow(c, thenList, rest)
				checkNoShadow(c, elseList, rest)
				c.njoin++
				k := fmt.Sprintf("k%d_", c.njoin)
				cr := c.clone()
				cr.njoin = c.njoin
				body := cr.stmts(rest, ind+"  ")
				c.njoin = cr.njoin
				pre = "let " + k + " := fun (_ : Unit) =>" + nl + "  " + body + nl
				c1.fall, c2.fall = k+" ()", k+" ()"
				c1.njoin, c2.njoin = c.njoin, c.njoin
				rest = nil
			}
		}
		if terminates(thenList) {
			t1 = c1.stmts(thenList, ind+"  ")
		} else {
			checkNoShadow(c, thenList, rest)
			t1 = c1.stmts(append(append([]ast.Stmt{}, thenList...), rest...), ind+"  ")
		}
		if terminates(elseList) {
			t2 = c2.stmts(elseList, ind+"  ")
		} else {
			checkNoShadow(c, elseList, rest)
			t2 = c2.stmts(append(append([]ast.Stmt{}, elseList...), rest...), ind+"  ")
		}
		return pre + "if " + cond + " then" + nl + "  " + t1 + nl + "else" + nl + "  " + t2
	case *ast.RangeStmt:
		return c.rangeStmt(x, rest, ind)
	case *ast.ForStmt:
		return c.forStmt(x, rest, ind)
	case *ast.SwitchStmt:
		return c.stmts(append([]ast.Stmt{switchToIf(x)}, rest...), ind)
	case *ast.LabeledStmt:
		return c.stmts(append([]ast.Stmt{x.Stmt}, rest...), ind)
	case *ast.TypeSwitchStmt:
		return c.typeSwitch(x, rest, ind)
	}
	fail("statement %T (%s)", s, firstLine(src(s)))
	return ""
}

func firstLine(s string) string {
	if len(s) > 60 {
		return s[:60] + "..."
	}
	return s
}

func mentions(list []ast.Stmt, name string) bool {
	found := false
	for _, s := range list {
		ast.Inspect(s, func(n ast.Node) bool {
			if id, ok := n.(*ast.Ident); ok && id.Name == name {
				found = true
			}
			return true
		})
	}
	return found
}

// a `:=` inside a block that falls through must not re-declare a name of the enclosing scope that the rest still reads
func checkNoShadow(c *trCtx, block, rest []ast.Stmt) {
	for _, s := range block {
		if as, ok := s.(*ast.AssignStmt); ok && as.Tok == token.DEFINE {
			for _, l := range as.Lhs {
				if id, ok := l.(*ast.Ident); ok && id.Name != "_" && c.declared[id.Name] && mentions(rest, id.Name) {
					fail("block re-declares %s which is used after it", id.Name)
				}
			}
		}
	}
}

// dynamic types the code tests for -> the constructor test of the value domain (CodePrelude `PyVal`)
var typeTests = map[string]string{"string": "asString", "ogorek.Tuple": "asTuple", "[]interface{}": "asList"}
var typeCases = map[string]string{"string": "PyVal.str", "ogorek.Tuple": "PyVal.tuple", "[]interface{}": "PyVal.list",
	"uint8": "PyVal.int", "int64": "PyVal.int", "(*big.Int)": "PyVal.big", "float64": "PyVal.float"}

// typeSwitch translates `switch v := x.(type) { case A, B: …; default: … }` into a match on the value's constructor. Types that
// the value domain identifies (all sized integers are `int`, both float widths `float`) must appear together in one case.
// When what follows the switch is not trivial, it is bound once as a function of the variables the cases assign (their
// types are known from their `var` declarations).
func (c *trCtx) typeSwitch(x *ast.TypeSwitchStmt, rest []ast.Stmt, ind string) string {
	nl := "\n" + ind
	var subject ast.Expr
	bind := "_"
	switch a := x.Assign.(type) {
	case *ast.AssignStmt:
		subject = a.Rhs[0].(*ast.TypeAssertExpr).X
		bind = lid(a.Lhs[0].(*ast.Ident).Name)
	case *ast.ExprStmt:
		subject = a.X.(*ast.TypeAssertExpr).X
	}
	// variables assigned in the cases and used afterwards: parameters of the join point
	as := map[string]bool{}
	allTerminate := true
	for _, cc := range x.Body.List {
		cl := cc.(*ast.CaseClause)
		assignedWithPops(cl.Body, as)
		if !terminates(cl.Body) {
			allTerminate = false
		}
	}
	var live []string
	for n := range as {
		if c.declared[n] && mentions(rest, n) {
			live = append(live, n)
		}
	}
	sort.Strings(live)
	k := ""
	pre := ""
	callK := ""
	if len(rest) > 0 && !allTerminate {
		var ps, as2 []string
		for _, n := range live {
			t, ok := c.varTypes[n]
			if !ok {
				fail("type switch assigns %s whose type is not declared with var", n)
			}
			ps = append(ps, "("+lid(n)+" : "+t+")")
			as2 = append(as2, lid(n))
		}
		c.njoin++
		k = fmt.Sprintf("k%d_", c.njoin)
		cr := c.clone()
		body := cr.stmts(rest, ind+"  ")
		c.njoin = cr.njoin
		if len(ps) == 0 {
			ps = []string{"(_ : Unit)"}
			callK = k + " ()"
		} else {
			callK = k + " " + strings.Join(as2, " ")
		}
		pre = "let " + k + " := fun " + strings.Join(ps, " ") + " =>" + nl + "  " + body + nl
		rest = nil
	}
	out := pre + "match " + c.expr(subject) + " with"
	hasDefault := false
	for _, cc := range x.Body.List {
		cl := cc.(*ast.CaseClause)
		cb := c.clone()
		cb.njoin = c.njoin
		if callK != "" {
			cb.fall = callK
		}
		if bind != "_" {
			cb.declared[x.Assign.(*ast.AssignStmt).Lhs[0].(*ast.Ident).Name] = true
		}
		if cl.List == nil {
			hasDefault = true
			out += nl + "| _ =>" + nl + "  " + cb.stmts(append(append([]ast.Stmt{}, cl.Body...), rest...), ind+"  ")
			continue
		}
		seen := map[string]bool{}
		var ctors []string
		for _, t := range cl.List {
			ctor, ok := typeCases[src(t)]
			if !ok {
				// the other sized integers and float32 are identified with int64 / float64
				switch src(t) {
				case "uint16", "uint32", "uint64", "int8", "int16", "int32":
					ctor = "PyVal.int"
				case "float32":
					ctor = "PyVal.float"
				default:
					fail("type switch case %s", src(t))
				}
			}
			if !seen[ctor] {
				seen[ctor] = true
				ctors = append(ctors, ctor)
			}
		}
		var pats []string
		for _, ct := range ctors {
			b := bind
			if len(ctors) > 1 {
				b = "_" // Go binds the interface value itself when a case lists several types
			}
			pats = append(pats, "| "+ct+" "+b)
		}
		out += nl + strings.Join(pats, " ") + " =>" + nl + "  " + cb.stmts(append(append([]ast.Stmt{}, cl.Body...), rest...), ind+"  ")
	}
	if !hasDefault {
		fall := c.fall
		if callK != "" {
			fall = callK
		}
		out += nl + "| _ =>" + nl + "  " + fall
	}
	return out
}

// switchToIf rewrites `switch tag { case a, b: S; default: D }` (no fallthrough) into an if / else-if chain. A `break` that
// ends a case body leaves the switch, i.e. does nothing more; a `break` anywhere else inside a case is refused (it would
// be read as leaving the enclosing loop).
func switchToIf(x *ast.SwitchStmt) ast.Stmt {
	if x.Init != nil {
		fail("switch with an init statement")
	}
	var def []ast.Stmt
	hasDef := false
	type arm struct {
		cond ast.Expr
		body []ast.Stmt
	}
	var arms []arm
	for _, cc := range x.Body.List {
		cl := cc.(*ast.CaseClause)
		body := cl.Body
		if n := len(body); n > 0 {
			if br, ok := body[n-1].(*ast.BranchStmt); ok && br.Tok == token.BREAK && br.Label == nil {
				body = body[:n-1]
			}
		}
		for _, b := range body {
			ast.Inspect(b, func(n ast.Node) bool {
				switch y := n.(type) {
				case *ast.ForStmt, *ast.RangeStmt, *ast.SwitchStmt, *ast.SelectStmt, *ast.FuncLit:
					return false
				case *ast.BranchStmt:
					if y.Tok == token.BREAK || y.Tok == token.FALLTHROUGH {
						fail("break/fallthrough inside a switch case")
					}
				}
				return true
			})
		}
		if cl.List == nil {
			def, hasDef = body, true
			continue
		}
		var cond ast.Expr
		for _, e := range cl.List {
			var one ast.Expr = e
			if x.Tag != nil {
				one = &ast.BinaryExpr{X: x.Tag, Op: token.EQL, Y: e}
			}
			if cond == nil {
				cond = one
			} else {
				cond = &ast.BinaryExpr{X: cond, Op: token.LOR, Y: one}
			}
		}
		arms = append(arms, arm{cond, body})
	}
	var cur ast.Stmt
	if hasDef {
		cur = &ast.BlockStmt{List: def}
	}
	for i := len(arms) - 1; i >= 0; i-- {
		cur = &ast.IfStmt{Cond: arms[i].cond, Body: &ast.BlockStmt{List: arms[i].body}, Else: cur}
	}
	if cur == nil {
		return &ast.EmptyStmt{}
	}
	return cur
}

// forStmt translates `for init; cond; post { body }` into a fuel-bounded loop (`whileP` / `whileR` of the prelude): the
// state is the tuple of outer variables the body or the post statement assigns; `continue` and the end of the body run the
// post statement; the fuel is the function's declared bound (the tie theorems show the loop ends before it runs out).
func (c *trCtx) forStmt(x *ast.ForStmt, rest []ast.Stmt, ind string) string {
	nl := "\n" + ind
	if c.f.fuel == "" {
		fail("for loop in a function without a declared iteration bound")
	}
	if x.Init != nil {
		y := *x
		y.Init = nil
		return c.stmts(append([]ast.Stmt{x.Init, &y}, rest...), ind)
	}
	loopNo := 0
	if c.f.loopTypes != nil {
		loopNo = *c.nloop // numbered in source order (before the rest, which may hold further loops, is translated)
		*c.nloop = loopNo + 1
	}
	bodyList := x.Body.List
	as := map[string]bool{}
	assignedIn(bodyList, as)
	if x.Post != nil {
		assignedIn([]ast.Stmt{x.Post}, as)
	}
	// a bare `return` reads the named results: they travel with the loop state
	if len(c.namedRes) > 0 {
		bare := false
		for _, st := range bodyList {
			ast.Inspect(st, func(n ast.Node) bool {
				if r, ok := n.(*ast.ReturnStmt); ok && len(r.Results) == 0 {
					bare = true
				}
				return true
			})
		}
		if bare {
			for _, n := range c.namedRes {
				as[n] = true
			}
		}
	}
	// objects advanced by pop methods are assigned too
	for _, st := range append(append([]ast.Stmt{}, bodyList...), x.Post) {
		if st == nil {
			continue
		}
		ast.Inspect(st, func(n ast.Node) bool {
			if call, ok := n.(*ast.CallExpr); ok {
				if se, ok := call.Fun.(*ast.SelectorExpr); ok && (popMethods[se.Sel.Name] || mutatorMethods[se.Sel.Name]) {
					if id, ok := se.X.(*ast.Ident); ok {
						as[id.Name] = true
					}
				}
			}
			return true
		})
	}
	var mv []string
	for n := range as {
		if c.declared[n] {
			mv = append(mv, n)
		}
	}
	sort.Strings(mv)
	var mvl []string
	for _, n := range mv {
		mvl = append(mvl, lid(n))
	}
	state := tuple(mvl)
	cond := "true"
	if x.Cond != nil {
		cond = c.expr(x.Cond)
	}
	b := c.clone()
	outerRet := c.retFull
	// the post statement runs at `continue` and at the end of the body
	post := ""
	if x.Post != nil {
		pc := c.clone()
		pc.fall = "POST_END"
		post = pc.stmts([]ast.Stmt{x.Post}, ind+"    ")
		post = strings.Replace(post, "POST_END", "", 1)
	}
	if c.f.pure {
		b.retFull = func(s string) string { return "Step.ret " + par(s) }
		b.brk = "Step.brk " + state
		b.cont = post + "Step.next " + state
	} else {
		b.retFull = func(s string) string { return "Res.pure (Step.ret " + par(s) + ")" }
		b.brk = "Res.pure (Step.brk " + state + ")"
		b.cont = post + "Res.pure (Step.next " + state + ")"
	}
	b.ret = func(s string) string { return b.retFull(b.full(s)) }
	b.fall = b.cont
	body := b.stmts(bodyList, ind+"    ")
	after := c.stmts(rest, ind+"    ")
	loop := "whileP"
	if !c.f.pure {
		loop = "whileR"
	}
	head := loop + " " + c.f.fuel + " (fun " + state + " => " + cond + ") (fun " + state + " =>" + nl + "    " + body + ") " + state
	if c.f.loopTypes != nil {
		k := loopNo
		if k >= len(c.f.loopTypes) {
			fail("more loops than declared state types")
		}
		T := c.f.loopTypes[k]
		// the body may only use the state, the Env and package-level names
		inState := map[string]bool{}
		for _, n := range mv {
			inState[n] = true
		}
		free := map[string]bool{}
		scan := func(n ast.Node) {
			ast.Inspect(n, func(m ast.Node) bool {
				if id, ok := m.(*ast.Ident); ok && c.declared[id.Name] && !inState[id.Name] {
					free[id.Name] = true
				}
				return true
			})
		}
		for _, st := range bodyList {
			scan(st)
		}
		if x.Cond != nil {
			scan(x.Cond)
		}
		if x.Post != nil {
			scan(x.Post)
		}
		// names declared inside the body shadow outer ones; a conservative check: refuse outer names that are read
		for n := range free {
			declaredInside := false
			for _, st := range bodyList {
				ast.Inspect(st, func(m ast.Node) bool {
					if as, ok := m.(*ast.AssignStmt); ok && as.Tok == token.DEFINE {
						for _, l := range as.Lhs {
							if id, ok := l.(*ast.Ident); ok && id.Name == n {
								declaredInside = true
							}
						}
					}
					return true
				})
			}
			if !declaredInside {
				fail("loop %d reads the outer variable %s (named loops may only use their state)", k+1, n)
			}
		}
		base := strings.Replace(c.f.lean, ".", "_", -1)
		envp := ""
		enva := ""
		if c.f.env {
			envp, enva = " (E : Env)", " E"
		}
		stepT := "Step (" + T + ") (" + c.rtFull + ")"
		if !c.f.pure {
			stepT = "Res (" + stepT + ")"
		}
		*c.preDefs = append(*c.preDefs,
			fmt.Sprintf("def %s_cond%d%s : %s → Bool :=\n  fun %s => %s\n", base, k+1, envp, T, state, cond),
			fmt.Sprintf("def %s_body%d%s : %s → %s :=\n  fun %s =>\n    %s\n", base, k+1, envp, T, stepT, state, strings.Replace(body, nl+"    ", "\n    ", -1)))
		head = fmt.Sprintf("%s %s (%s_cond%d%s) (%s_body%d%s) %s", loop, c.f.fuel, base, k+1, enva, base, k+1, enva, state)
	}
	if c.f.pure {
		return "match " + head + " with" + nl + "  | Out.ret r_ => " + outerRet("r_") + nl + "  | Out.done " + state + " =>" + nl + "    " + after
	}
	return "Res.bind (" + head + ") fun" + nl + "  | Out.ret r_ => " + outerRet("r_") + nl + "  | Out.done " + state + " =>" + nl + "    " + after
}

func (c *trCtx) rangeStmt(x *ast.RangeStmt, rest []ast.Stmt, ind string) string {
	nl := "\n" + ind
	as := map[string]bool{}
	assignedIn(x.Body.List, as)
	rangeAssign := x.Tok == token.ASSIGN
	if rangeAssign {
		// `for i, v = range xs`: the loop variables are outer variables, assigned at the start of every iteration
		for _, e := range []ast.Expr{x.Key, x.Value} {
			if e == nil {
				continue
			}
			id, ok := e.(*ast.Ident)
			if !ok {
				fail("range assigns to %s", src(e))
			}
			if id.Name != "_" {
				as[id.Name] = true
			}
		}
	}
	var mv []string
	for n := range as {
		if c.declared[n] {
			mv = append(mv, n)
		}
	}
	sort.Strings(mv)
	var mvl []string
	for _, n := range mv {
		mvl = append(mvl, lid(n))
	}
	state := tuple(mvl)
	useKey := x.Key != nil && src(x.Key) != "_"
	val := "_"
	if x.Value != nil {
		val = lid(src(x.Value))
	}
	keyName := ""
	if useKey {
		keyName = lid(src(x.Key))
	}
	rebind := ""
	if rangeAssign {
		// bind the elements under fresh names, then assign
		if val != "_" {
			rebind += "let " + val + " := " + val + "_it\n" + ind + "    "
			val = val + "_it"
		}
		if useKey {
			rebind += "let " + keyName + " := " + keyName + "_it\n" + ind + "    "
			keyName = keyName + "_it"
		}
	}
	coll := par(c.expr(x.X))
	pat := val
	if useKey {
		coll = "(Lib.enum " + coll + ")"
		pat = "(" + keyName + ", " + val + ")"
	}
	b := c.clone()
	if useKey {
		b.declared[src(x.Key)] = true
	}
	if x.Value != nil {
		b.declared[src(x.Value)] = true
	}
	outerRet := c.retFull
	if c.f.pure {
		b.retFull = func(s string) string { return "Step.ret " + par(s) }
		b.brk = "Step.brk " + state
		b.cont = "Step.next " + state
	} else {
		b.retFull = func(s string) string { return "Res.pure (Step.ret " + par(s) + ")" }
		b.brk = "Res.pure (Step.brk " + state + ")"
		b.cont = "Res.pure (Step.next " + state + ")"
	}
	b.ret = func(s string) string { return b.retFull(b.full(s)) }
	b.fall = b.cont
	body := rebind + b.stmts(x.Body.List, ind+"    ")
	after := c.stmts(rest, ind+"    ")
	if c.f.pure {
		return "match forRangeP (fun " + pat + " " + state + " =>" + nl + "    " + body + ") " + coll + " " + state + " with" + nl +
			"  | Out.ret r_ => " + outerRet("r_") + nl + "  | Out.done " + state + " =>" + nl + "    " + after
	}
	return "Res.bind (forRange (fun " + pat + " " + state + " =>" + nl + "    " + body + ") " + coll + " " + state + ") fun" + nl +
		"  | Out.ret r_ => " + outerRet("r_") + nl + "  | Out.done " + state + " =>" + nl + "    " + after
}

// ---------------------------------------------------------------- functions

func translateAll(pkgs map[string]*pkgInfo) {
	bufs := map[string]*strings.Builder{}
	names := map[string][]string{}
	var order []string
	done := map[string]map[string]string{}
	for _, f := range trList {
		b := bufs[f.file]
		if b == nil {
			b = &strings.Builder{}
			bufs[f.file] = b
			order = append(order, f.file)
			b.WriteString("import Crng.CodePrelude\n")
			for _, im := range trImports[f.file] {
				b.WriteString("import Crng.Gen." + im + "\n")
			}
			for _, im := range trSpecImports[f.file] {
				b.WriteString("import " + im + "\n")
			}
			b.WriteString("/-! GENERATED by /verif/extract/translate.go from /repo's working tree. Do not edit. -/\nset_option linter.unusedVariables false\nnamespace Crng.Gen.Code\nopen Crng.Code\n\n")
		}
		p := pkgs[f.pkg]
		key := f.file + "/" + f.pkg
		if done[key] == nil {
			done[key] = map[string]string{}
		}
		var text string
		func() {
			defer func() {
				if r := recover(); r != nil {
					if e, ok := r.(trErr); ok {
						text = fmt.Sprintf("def %s_UNTRANSLATABLE : String := %q\n", strings.Replace(f.lean, ".", "_", -1), e.msg)
						return
					}
					panic(r)
				}
			}()
			fd := p.fns[f.name]
			if fd == nil {
				fail("function %s not found in package %s", f.name, f.pkg)
			}
			text = translateFunc(f, fd, done[key])
		}()
		if !strings.Contains(text, "_UNTRANSLATABLE") {
			// plain functions can be called by later functions of the same package in the same module
			if !strings.Contains(f.name, ".") {
				done[key][f.name] = f.lean
			}
			names[f.file] = append(names[f.file], f.lean)
		}
		b.WriteString("/-- " + f.pkg + ": `" + f.name + "` -/\n" + text + "\n")
	}
	for _, file := range order {
		b := bufs[file]
		b.WriteString("def translated_" + file + " : List String := " + strList(names[file]) + "\nend Crng.Gen.Code\n")
		if err := ioutil.WriteFile(filepath.Join(outDir, file+".lean"), []byte(b.String()), 0644); err != nil {
			panic(err)
		}
	}
}

func translateFunc(f trFunc, fd *ast.FuncDecl, pkgFns map[string]string) string {
	var pre []string
	nl0 := 0
	c := &trCtx{f: f, pkgFns: pkgFns, declared: map[string]bool{}, varTypes: map[string]string{}, preDefs: &pre, nloop: &nl0}
	var params []string
	if f.env {
		params = append(params, "(E : Env)")
	}
	addParam := func(names []*ast.Ident, t ast.Expr) {
		lt, ok := leanTypes[src(t)]
		if !ok {
			fail("parameter type %s", src(t))
		}
		for _, n := range names {
			params = append(params, "("+lid(n.Name)+" : "+lt+")")
			c.declared[n.Name] = true
		}
	}
	var stateNames, stateTypes []string
	for _, st := range f.state {
		if st == "recv" || strings.HasPrefix(st, "param:") {
			continue
		}
		kv := strings.SplitN(st, ":", 2)
		params = append(params, "("+lid(kv[0])+" : "+kv[1]+")")
		c.declared[kv[0]] = true
		stateNames = append(stateNames, lid(kv[0]))
		stateTypes = append(stateTypes, kv[1])
	}
	if f.extract != "" {
		for _, ep := range f.exParams {
			kv := strings.SplitN(ep, ":", 2)
			params = append(params, "("+lid(kv[0])+" : "+kv[1]+")")
			c.declared[kv[0]] = true
		}
	}
	if fd.Recv != nil && f.extract == "" {
		addParam(fd.Recv.List[0].Names, fd.Recv.List[0].Type)
		for _, st := range f.state {
			if st == "recv" {
				stateNames = append(stateNames, lid(fd.Recv.List[0].Names[0].Name))
				stateTypes = append(stateTypes, leanTypes[src(fd.Recv.List[0].Type)])
			}
		}
	}
	for _, p := range fd.Type.Params.List {
		if f.extract != "" {
			break
		}
		addParam(p.Names, p.Type)
		for _, st := range f.state {
			for _, n := range p.Names {
				if st == "param:"+n.Name {
					// a parameter that the function advances (a scanner): its final value is returned after the results
					stateNames = append(stateNames, lid(n.Name))
					stateTypes = append(stateTypes, leanTypes[src(p.Type)])
				}
			}
		}
	}
	var rts []string
	if fd.Type.Results != nil && f.extract == "" {
		for _, r := range fd.Type.Results.List {
			lt, ok := leanTypes[src(r.Type)]
			if !ok && f.fuel == "guards" {
				lt, ok = "Unit", true // only the error of the guards is kept
			}
			if !ok {
				fail("result type %s", src(r.Type))
			}
			n := len(r.Names)
			if n == 0 {
				n = 1
			}
			for i := 0; i < n; i++ {
				rts = append(rts, lt)
			}
		}
	}
	// named results are variables initialised to their zero values; a bare `return` yields their current values
	var namedRes []string
	namedInit := ""
	if fd.Type.Results != nil && f.extract == "" {
		for _, r := range fd.Type.Results.List {
			for _, n := range r.Names {
				if n.Name == "_" {
					continue
				}
				lt := leanTypes[src(r.Type)]
				namedRes = append(namedRes, n.Name)
				namedInit += "let " + lid(n.Name) + " : " + lt + " := default\n  "
				c.declared[n.Name] = true
			}
		}
	}
	c.namedRes = namedRes
	rt := "Unit"
	c.nres = len(rts)
	if len(rts) > 0 {
		rt = strings.Join(rts, " × ")
	}
	if len(stateNames) > 0 {
		noRes := len(rts) == 0
		if noRes {
			rt = strings.Join(stateTypes, " × ")
		} else {
			rt = rt + " × " + strings.Join(stateTypes, " × ")
		}
		wrap := func(s string) string { return s }
		if !f.pure {
			wrap = func(s string) string { return "Res.pure " + par(s) }
			rt = "Res (" + rt + ")"
		}
		// every return (and the end of the body) yields the results followed by the state at that point
		c.full = func(s string) string {
			if noRes || s == "()" {
				return tuple(stateNames)
			}
			if strings.HasPrefix(s, "(") && balancedOuter(s) && strings.Contains(s, ",") {
				return "(" + s[1:len(s)-1] + ", " + strings.Join(stateNames, ", ") + ")"
			}
			return "(" + s + ", " + strings.Join(stateNames, ", ") + ")"
		}
		c.retFull = wrap
		c.ret = func(s string) string { return c.retFull(c.full(s)) }
		c.fall = wrap(tuple(stateNames))
		if !noRes {
			var ds []string
			for range rts {
				ds = append(ds, "default")
			}
			c.fall = wrap("(" + strings.Join(ds, ", ") + ", " + strings.Join(stateNames, ", ") + ")")
		}
	} else if f.pure {
		c.full = func(s string) string { return s }
		c.retFull = func(s string) string { return s }
		c.ret = func(s string) string { return s }
		c.fall = "default"
		if rt == "Unit" {
			c.fall = "()"
		}
	} else {
		c.full = func(s string) string { return s }
		c.retFull = func(s string) string { return "Res.pure " + par(s) }
		c.ret = func(s string) string { return "Res.pure " + par(s) }
		c.fall = "Res.pure default"
		if rt == "Unit" {
			c.fall = "Res.pure ()"
		}
		rt = "Res (" + rt + ")"
	}
	c.rtFull = strings.TrimSuffix(strings.TrimPrefix(rt, "Res ("), ")")
	if f.pure {
		c.rtFull = rt
	}
	stmtsList := fd.Body.List
	if f.extract != "" {
		var found ast.Stmt
		ast.Inspect(fd.Body, func(n ast.Node) bool {
			if ls, ok := n.(*ast.LabeledStmt); ok && ls.Label.Name == f.extract {
				found = ls.Stmt
			}
			return true
		})
		if found == nil {
			fail("no statement labelled %s", f.extract)
		}
		stmtsList = []ast.Stmt{found}
	}
	if f.fuel == "guards" {
		// the leading guards only; the value is the error alone
		var gs []ast.Stmt
		for _, st := range stmtsList {
			is, ok := st.(*ast.IfStmt)
			if !ok || is.Init != nil || is.Else != nil || len(is.Body.List) != 1 {
				break
			}
			rs, ok := is.Body.List[0].(*ast.ReturnStmt)
			if !ok || len(rs.Results) == 0 {
				break
			}
			gs = append(gs, &ast.IfStmt{Cond: is.Cond, Body: &ast.BlockStmt{List: []ast.Stmt{&ast.ReturnStmt{Results: []ast.Expr{rs.Results[len(rs.Results)-1]}}}}})
		}
		if len(gs) == 0 {
			fail("no leading guards")
		}
		gs = append(gs, &ast.ReturnStmt{Results: []ast.Expr{ast.NewIdent("nil")}})
		stmtsList = gs
		rt = "Err"
		c.nres = 1
	}
	body := c.stmts(stmtsList, "  ")
	name := f.lean
	if strings.Contains(name, ".") {
		name = "_root_.Crng.Code." + name
	}
	if f.fuel == "guards" {
		namedInit = ""
	}
	return strings.Join(pre, "\n") + "def " + name + " " + strings.Join(params, " ") + " : " + rt + " :=\n  " + namedInit + body + "\n"
}
