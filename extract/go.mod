module crngverif/extract

go 1.13
